"""C08 — ExponentiatedGradient meets the saddle-point guarantees certified by best_gap_."""
import hashlib
import json
import logging
import math
import os
import random
from fractions import Fraction as F

import numpy as np
import pandas as pd

from .. import egreplay
from .. import proto
from .. import redoracle as ro
from ..core import Check, Problem, register
from sklearn.base import BaseEstimator

from ..learners import ExactLearner, hypotheses, _col0

logging.getLogger("fairlearn").setLevel(logging.ERROR)

TOL = 1e-7          # scipy.linprog (HiGHS) feasibility/optimality tolerance + float rounding (LP residual relations of egreplay)
# review R2 — the relations below compare best_gap_ / weights_ with quantities evaluated EXACTLY at the recorded float
# (weights_, multiplier): HiGHS's tolerance does not enter.  Measured on the clean tree (720 fits, seeds 0..2):
#   |best_gap_ - exact gap of the matching multiplier| / max(1,|g|) <= 1.2e-14 ; exact gap - best_gap_ <= 1.2e-14 ;
#   min(weights_) >= 0 exactly ; |sum(weights_) - 1| <= 5.8e-15 ; |_pmf_predict - mixture| <= 1.1e-16 ; min multiplier >= 0.
PRECISION = 1e-8    # fairlearn's _PRECISION: best_gap_ may understate the true gap by up to this much (theorem
                    # C08.classGap_le_evalGap_gap, witnesses C08.precision_slack_needed and corpus/C08/f23-precision-slack.json (known finding F23))
ROUND = 1e-12       # float rounding of the gap / guarantee relations (< 100 x 1.2e-14; was 1e-7 together with the slack)
W_TOL = 5e-13       # weights_ is a probability vector (< 100 x 5.8e-15; was 1e-7)
PMF_TOL = 1e-14     # _pmf_predict is the weights_-mixture (100 x 1.1e-16; was 1e-9)
LAM_TOL = 1e-12     # recorded multipliers are non-negative (measured: exactly; was 1e-7)

# The source fragments the model is generated from (Generated/EGGen.lean), as the lifter reports them for the
# tree the oracle below was written against.  While they are unchanged a model/oracle disagreement is a bug of
# this machinery (HARNESS-ERROR); once one of them changes, the disagreement is a broken tie and is reported as
# a correspondence problem naming the fragment.
PINNED = {
    "constants": {"_PRECISION": "1e-8", "_ACCURACY_MUL": "0.5", "_REGRET_CHECK_START_T": "5",
                  "_REGRET_CHECK_INCREASE_T": "1.6", "_SHRINK_REGRET": "0.8", "_SHRINK_ETA": "0.8", "_MIN_ITER": "5"},
    "break": "gaps[t] < self.nu and t >= _MIN_ITER",
    "keep": "gaps_series <= gaps_series.min() + _PRECISION",
    "best_iter": "gaps_best.index[-1]",
    "preferEG": "gap_EG < gap_LP",
    "gap": "max(self.L - self.L_low, self.L_high - self.L)",
    "L_high": "if max_constraint > 0:\n    L_high += self.B * max_constraint",
    "improves": "h_value < best_value - _PRECISION",
    "L": "error + np.sum(lambda_vec * (gamma - self.constraints.bound()))",
    "max_constraint": "(gamma - self.constraints.bound()).max()",
    "L_low": "L_low_mul < result.L_low",
    "weights": "Qs[self.best_iter_]",
}
PINNED_LOOP = json.loads(r"""{"init": {"theta": "pd.Series(0, lagrangian.constraints.index)", "Qsum": "pd.Series(dtype='float64')", "gaps_EG": "[]", "gaps": "[]", "Qs": "[]", "last_regret_checked": "_REGRET_CHECK_START_T", "last_gap": "np.inf", "self.lambda_vecs_EG_": "pd.DataFrame()", "self.lambda_vecs_LP_": "pd.DataFrame()"}, "lambda_vec": "B * np.exp(theta) / (1 + np.exp(theta).sum())", "lambda_EG": "self.lambda_vecs_EG_.mean(axis=1)", "Qsum": ["Qsum.at[h_idx] = 0.0", "Qsum[h_idx] += 1.0"], "Q_EG": "Qsum / Qsum.sum()", "eta": "self.eta0 / B", "skipLP": "t == 0 or not self.run_linprog_step", "regretDue": "t >= last_regret_checked * _REGRET_CHECK_INCREASE_T", "shrinkDue": "best_gap > last_gap * _SHRINK_REGRET", "shrink": "eta *= _SHRINK_ETA", "theta": "theta += eta * (gamma - self.constraints.bound())", "last_iter": "len(Qs) - 1", "evalBreak": "result.gap() > nu + _PRECISION", "_eval": ["error = self.errors[Q.index].dot(Q)", "gamma = self.gammas[Q.index].dot(Q)", "if self.opt_lambda:\n    lambda_vec = self.constraints.project_lambda(lambda_vec)"], "h_value": "h_error + h_gamma.dot(lambda_vec)", "best_h": ["values = self.errors + self.gammas.transpose().dot(lambda_vec)", "best_idx = values.idxmin()", "best_value = values[best_idx]", "best_idx = -1", "best_value = np.inf"]}""")
PINNED_LP = json.loads(r"""{"c": "np.concatenate((self.errors, [self.B]))", "A_ub": "np.concatenate((self.gammas.sub(self.constraints.bound(), axis=0), -np.ones((n_constraints, 1))), axis=1)", "b_ub": "np.zeros(n_constraints)", "A_eq": "np.concatenate((np.ones((1, n_hs)), np.zeros((1, 1))), axis=1)", "b_eq": "np.ones(1)", "dual_c": "np.concatenate((b_ub, -b_eq))", "dual_A_ub": "np.concatenate((-A_ub.transpose(), A_eq.transpose()), axis=1)", "dual_bounds": "[(None, None) if i == n_constraints else (0, None) for i in range(n_constraints + 1)]", "cache": "self.last_linprog_n_hs == n_hs"}""")
PINNED_SHA = {"EGGen.lean": "a3796ff4c7f3dd1ba82932ccd1e3207c7ae9f8e4",
              "EGLoopGen.lean": "3bf997318ec1fca48a0127b9d5ae8395f57cfb8c",
              "LinProgGen.lean": "7dd187a6194175faa7fab754d1ba4cdaf9927a30",
              "ProjectLambdaSrc.lean": "da3c0da380a16d666e93922128cb2caf1fe1347b"}
_LIFTED = {}
_RP = {}


def lab_key(lab):
    """a labeling (ints, or exact rationals as strings for an explicit soft class) as a tuple of Fractions; Fraction(1) == 1,
    so these compare equal to the int tuples of `hypotheses`"""
    return tuple(F(v) for v in lab)


class SoftTraceLearner(BaseEstimator):
    """EXACT cost-sensitive learner over an EXPLICITLY given finite class (case format extension `hclass`, review R2 / F23):
    every hypothesis is a vector of predictions in [0,1] (exact rationals as strings), one per distinct feature value; the
    learner returns the first minimiser of sum_i w_i |y_i - h(x_i)| (same tie tolerance as ExactLearner) and logs it."""

    def __init__(self, hclass=()):
        self.hclass = hclass

    def fit(self, X, y, sample_weight=None):
        x = _col0(X)
        y = np.asarray(y).astype(float).reshape(-1)
        w = np.ones(len(y)) if sample_weight is None else np.asarray(sample_weight, dtype=float).reshape(-1)
        vals = sorted(set(x.tolist()))
        pos = {v: j for j, v in enumerate(vals)}
        k = len(vals)
        w1, w0 = [0.0] * k, [0.0] * k
        for xi, yi, wi in zip(x.tolist(), y.tolist(), w.tolist()):
            (w1 if yi == 1.0 else w0)[pos[xi]] += wi
        tot = float(sum(w1) + sum(w0))
        best, best_cost = None, None
        for h in self.hclass:
            hf = [float(F(v)) for v in h]
            cost = sum(hf[j] * w0[j] + (1.0 - hf[j]) * w1[j] for j in range(k))
            if best is None or cost < best_cost - 1e-12 * max(tot, 1.0):
                best, best_cost = h, cost
        self.values_, self.labeling_ = vals, [float(F(v)) for v in best]
        self.classes_ = np.array([0, 1])
        egreplay.EVENTS.append(("h", tuple(str(F(v)) for v in best)))
        return self

    def predict(self, X):
        m = dict(zip(self.values_, self.labeling_))
        return np.array([m.get(v, 0.0) for v in _col0(X).tolist()], dtype=float)


def loop_replay(case, o):
    """exact replay of the main loop on the recorded answers (cached per implementation output object)"""
    ent = _RP.get(id(o))
    if ent is not None and ent[0] is o:
        return ent[1]
    P, H, errs, gams = table_of(case)
    try:
        o_r = o if not case.get("hclass") else dict(o, trace=[[e[0], list(lab_key(e[1]))] if e[0] == "h" else e for e in o["trace"]])
        rp = egreplay.run_replay(case, o_r, P, H, errs, gams)
    except (ValueError, IndexError, KeyError, ZeroDivisionError) as e:      # a trace that is not of the recorded shape
        rp = None
        o["_replay_error"] = repr(e)[:200]
    if len(_RP) > 512:
        _RP.clear()
    _RP[id(o)] = (o, rp)
    return rp


def loop_observables(case, o, P, H, errs):
    idx = [tuple(k) for k in o["lam_index"]]
    perm = [idx.index(k) for k in P.index]
    o2 = dict(o)
    o2["lam_cols"] = [[c[j] for j in perm] for c in o["lam_cols_raw"]]
    o2["lam_lp_cols"] = {t: [c[j] for j in perm] for t, c in o["lam_lp_raw"].items()}
    o2["weights_by_idx"] = o["weights"]
    o2["stored_errs"] = [float(errs[H.index(lab_key(lab))]) for lab in o["predictors"]]
    return o2


def lifted_changes():
    """names of the lifted fragments that differ from PINNED (cached per process)"""
    if "v" not in _LIFTED:
        from .. import core, translate
        try:
            info = translate.run(core.REPO)
            meta = info.get("EGGen.lean", {})
            ch = sorted(k for k in PINNED if meta.get(k) != PINNED[k])
            # a lifter behind a generated file this property imports refused the tree: that file is stale on disk
            deps = translate.generated_deps("FairModel.Properties.C08X")
            ch += [f"{fn}:lifter refused" for fn in sorted(info.get("_refused") or {})
                   if fn in deps or fn in PINNED_SHA or fn.startswith("?")]
            for fn, pinned in (("EGLoopGen.lean", PINNED_LOOP), ("LinProgGen.lean", PINNED_LP)):
                m = info.get(fn, {})
                ch += sorted(f"{fn}:{k}" for k in pinned if json.loads(json.dumps(m.get(k))) != pinned[k])
            # anything else that changed the generated text (e.g. the multiplier list of eval_gap)
            for fn, sha in PINNED_SHA.items():
                try:
                    with open(os.path.join(translate.GEN_DIR, fn), "rb") as f:
                        cur = hashlib.sha1(f.read()).hexdigest()
                except OSError:
                    cur = None
                if cur != sha and not any(c.startswith(fn + ":") for c in ch):
                    ch.append(f"{fn}:generated text")
            _LIFTED["v"] = ch
        except translate.Untranslatable as e:
            _LIFTED["v"] = ["untranslatable: " + str(e)[:120]]
    return _LIFTED["v"]


def mk_moment(case):
    import fairlearn.reductions as red
    cls = {"DP": red.DemographicParity, "TPR": red.TruePositiveRateParity, "FPR": red.FalsePositiveRateParity,
           "EO": red.EqualizedOdds, "ERP": red.ErrorRateParity}[case["moment"]]
    b = float(F(case["bound"]))
    if case["ratio"] is None:
        return cls(difference_bound=b)
    return cls(ratio_bound=float(F(case["ratio"])), ratio_bound_slack=b)


def containers(case):
    x, y, g = case["x"], case["y"], case["g"]
    kind = case.get("container", "df")
    if kind == "np":
        return np.array(x, dtype=float).reshape(-1, 1), np.array(y), np.array(g)
    if kind == "list":
        return pd.DataFrame({"f": x}), list(y), list(g)
    return pd.DataFrame({"f": x}), pd.Series(y), pd.Series(g)


def test_matrix(case, vals):
    if case.get("container", "df") == "np":
        return np.array(vals, dtype=float).reshape(-1, 1)
    return pd.DataFrame({"f": vals})


def idx_key(t):
    return tuple(str(v) for v in (t if isinstance(t, tuple) else (t,)))


def problem_of(case):
    return ro.Problem(case["moment"], case["y"], case["g"],
                      ratio=F(case["ratio"]) if case.get("ratio") else F(1), eps=F(case["bound"]))


def table_of(case):
    """the whole hypothesis class: labelings, prediction vectors, exact errors and gammas"""
    P = problem_of(case)
    vals = sorted(set(case["x"]))
    pos = {v: j for j, v in enumerate(vals)}
    if case.get("hclass"):
        H = [lab_key(h) for h in case["hclass"]]       # explicit (possibly soft) class: one prediction per distinct value
        if any(len(h) != len(vals) for h in H):
            raise ValueError("hclass: one prediction per distinct feature value expected")
    else:
        H = hypotheses(case["kind"], len(vals))
    hv = [[h[pos[v]] for v in case["x"]] for h in H]
    errs = [P.err(h) for h in hv]
    gams = [P.gamma(h) for h in hv]
    return P, H, errs, gams


@register
class CHECK(Check):
    pid = "C08"
    module = "FairModel.Properties.C08X"  # base file + composition theorems (same namespace)
    cross = (("eg", {"X1.eg-certificate-vs-metric"}),)
    technique = ("Lean 4 theorems over (i) the Saddle model (Lagrangian, L_low, L_high, gap, project_lambda, best-iterate selection), "
                 "(ii) the ExponentiatedGradient MAIN LOOP as a state machine (Model/EGLoop.lean: multipliers, running mean, best_h "
                 "cache, eval_gap's [1,2,5,10] loop with its break, LP cache, EG-vs-LP choice, break rule, regret check / eta shrink, "
                 "theta update, returned iterate) and (iii) the two LPs of solve_linprog (Model/LinProg.lean), all written over "
                 "expressions lifted from the Python source on every run (Generated/EGGen, EGLoopGen, LinProgGen); correspondence = "
                 "every generated fit is recorded (base-learner answers, DummyClassifier shortcuts, every scipy.linprog call with its "
                 "arguments and solution) and re-run by the compiled state machine and by an independent exact-Fraction replay; "
                 "+ compiled-driver recomputation of the TRUE duality gap over the enumerated class + exact LP optimum")
    level_text = ("Theorems (any finite class, all rational inputs, every run length, ANY oracle answers): gap <= g, lambda >= 0, Q' "
                  "feasible => err(Q) <= err(Q') + 2g; violation_j <= (1+2g)/B; L_high is the multiplier player's best response; "
                  "every lambda_t and every running mean lambda_EG is >= 0 with L1 norm < B (from positivity of exp only); Q_EG and "
                  "weights_ are probability vectors; eta = eta0/B * 0.8^k, non-increasing; at most max_iter iterations, "
                  "len(gaps) = len(Qs) = t, best_iter_ <= last_iter_, early stop => best_gap_ < nu; best_h's store is append-only, "
                  "the returned index is a stored argmin within _PRECISION of the oracle's answer; eval_gap's reported gap is <= the "
                  "true gap for ANY class-member oracle and >= true gap - _PRECISION when the ONE call at mul = 1 is exact (slack "
                  "shown necessary); the two guarantees for the OUTPUT of the loop; solve_linprog's primal feasibility = "
                  "distribution + slack >= max violation, objective = err + B t (= L_high at the optimal slack), dual feasibility = "
                  "(lambda >= 0, |lambda|_1 <= B, mu <= L(h_i, lambda) for all stored i), weak duality for the generated pair, "
                  "gap 0 => both optimal. Tie: expressions/constants/matrix constructions lifted from the source; every fit replayed "
                  "(lambda_vecs_EG_ column by column, lambda_vecs_LP_, best_iter_, last_iter_, best_gap_, weights_, n_oracle_calls_, "
                  "stored classifiers, LP matrices entry by entry, LP solutions' feasibility residuals/objectives/duality certificate); "
                  "the two guarantees are checked against an exact simplex optimum (cross-checked with scipy).")
    design_ref = "DESIGN.md section 4, C08"
    quick_cases = 240
    thorough_cases = 2000
    quick_budget_s = 130
    thorough_budget_s = 1300
    rule = ("binary data sets of 6..16 rows, one feature with 2..5 distinct values (hypothesis class = all 2^k labelings or the "
            "2k threshold labelings, enumerated), 2..3 groups, DP/TPR/FPR/EO/ERP x {difference bound in {0,1/100,1/20,1/10,1/4}, "
            "ratio bound in {1/2,4/5,1} with the same slacks}, eps in {1/4,1/10,1/20,1/50,1/100}, max_iter 1..50, nu None or "
            "given, eta0 in {1/2,1,2,4}, run_linprog_step on/off, DataFrame/ndarray/list containers; a fresh Moment per fit; "
            "distinct = distinct case; non-trivial = more than one predictor or positive gap or early stop")
    explanation = ("theorems over Model/Saddle.lean, Model/EGLoop.lean, Model/LinProg.lean + Generated/EGGen, EGLoopGen, LinProgGen; the "
                   "true gap of (weights_, recorded multiplier) is recomputed exactly by the driver for the EG-average and the LP "
                   "multiplier of the returned iteration; the loop replay additionally determines WHICH of the two was used "
                   "(evidence tag loop:returned=EG|LP-iterate).  Property-level tolerances (review R2, measured): best_gap_ vs exact gap and "
                   "the two guarantees: _PRECISION (1e-8, the proven slack of the best_h cache) + 1e-12*max(1,g); weights_ a "
                   "probability vector: 5e-13; pmf = mixture: 1e-14; multipliers >= -1e-12.  Loop-level comparison tolerance: 1e-9*max(1,B) on multipliers and "
                   "gaps, 1e-9 on weights, 1e-12 on LP matrix entries, 1e-7*max(1,B) on LP residuals / primal-dual objective equality.  "
                   "The clause best_gap_ >= true gap is judged LITERALLY (float slack 1e-12 only); an understatement <= _PRECISION that "
                   "goes with a sub-_PRECISION best_h cache hit in the replayed trace is known finding F23 (corpus/C08/"
                   "f23-precision-slack.json, explicit soft hypothesis class `hclass`); any other understatement is a violation.  "
                   "A branch decision of the float implementation whose two sides differ by < 1e-11 (relative) in exact arithmetic "
                   "(idxmin ties between stored classifiers at uniform multipliers, gap_EG = gap_LP = 0, ...) may legitimately go the "
                   "other way: such runs are tagged loop:near-tie and a loop-level divergence there is not reported")
    trusted = ("scipy.optimize.linprog (HiGHS) inside solve_linprog: its answers are inputs (Oracles.lp) of the loop model; their "
               "feasibility and optimality are re-checked per call through the model's residuals and the weak-duality certificate; "
               "tolerance 1e-7 (relative to max(1, gap))",
               "np.exp: a parameter of the loop model (only positivity is used by the theorems); the driver receives math.exp of the "
               "float nearest to each exact theta as an exact rational",
               "harness/learners.py ExactLearner is the exact cost-sensitive learner the property is conditional on; its answers "
               "(and sklearn DummyClassifier's) are the Oracles.h inputs of the loop model",
               "harness/egreplay.py: recording wrappers around DummyClassifier.fit and scipy.optimize.linprog (active only while "
               "fit runs, no source hook) and the exact-Fraction replay that supplies the exp table",
               "harness/redoracle.py: exact two-phase simplex (Bland) for the constrained optimum, cross-checked with scipy")
    assumptions = ("both labels and at least two groups occur; both constant classifiers belong to the class, so the "
                   "constrained problem is feasible", "objective=None (ErrorRate with unit costs), so errors lie in [0,1]")

    # ---------------------------------------------------------------- generation
    def generate(self, rng, tier):
        """~30 % of the cases give the ExponentiatedGradient object (and therefore its constraints object) a PREVIOUS LIFE
        (see `impl`); the flag is derived from the case content, so the rng stream is unchanged"""
        for case in self._generate(rng, tier):
            if "history" not in case:
                case = dict(case, history=random.Random(json.dumps(case, sort_keys=True)).random() < 0.3)
            yield case

    def _generate(self, rng, tier):
        n_yield = 0
        while True:
            n = rng.choice([6, 7, 8, 8, 9, 10, 10, 12, 14, 16])
            k = rng.choice([2, 3, 3, 4, 4, 5])
            ng = rng.choice([2, 2, 3])
            groups = list("abc")[:ng]
            rng.shuffle(groups)
            g = [rng.choice(groups) for _ in range(n)]
            for i, gg in enumerate(groups):
                g[i % n] = gg
            if rng.random() < 0.7:
                # base rates differ by group and the feature tracks the label: the unconstrained optimum is
                # unfair, so the constraint binds and several predictors are mixed
                rate = {gg: rng.choice([0.15, 0.3, 0.5, 0.7, 0.85]) for gg in groups}
                y = [1 if rng.random() < rate[gi] else 0 for gi in g]
                noise = rng.choice([0.0, 0.15, 0.3])
                x = [min(k - 1, max(0, (k - 1) * yi + rng.choice([0, 0, 1, -1]) if rng.random() >= noise
                                    else rng.randrange(k))) for yi in y]
            else:
                x = [rng.randrange(k) for _ in range(n)]
                y = [rng.randint(0, 1) for _ in range(n)]
            if len(set(y)) < 2 or len(set(g)) < 2 or len(set(x)) < 2:
                continue
            moment = rng.choice(["DP", "DP", "TPR", "FPR", "EO", "EO", "ERP"])
            ratio = rng.choice([None, None, None, "1/2", "4/5", "1"])
            kind = "all" if k <= 4 or rng.random() < 0.5 else "threshold"
            n_yield += 1
            case = {"x": x, "y": y, "g": g, "moment": moment, "ratio": ratio,
                   "bound": rng.choice(["0", "1/100", "1/100", "1/20", "1/10", "1/4"]),
                   "eps": rng.choice(["1/4", "1/10", "1/20", "1/50", "1/100", "1/100"]),
                   "max_iter": rng.choice([1, 2, 3, 5, 6, 7, 8, 10, 15, 20, 30, 50, 50]),
                   "nu": rng.choice([None, None, None, "1/1000", "1/100", "1/10", "1"]),
                   "eta0": rng.choice(["1/2", "1", "2", "2", "4"]),
                   "linprog": rng.random() < 0.6, "kind": kind if rng.random() < 0.8 else "threshold",
                   "container": rng.choice(["df", "df", "np", "list"]),
                   "sel": self._gen_sel(rng)}
            yield case
            if n_yield % 8 == 0:
                # "long run" twin of every 8th case (derived without touching the rng stream): no early break, so the regret
                # checks at t = 8, 13, 21, 34 and the eta shrink are reached, the LP cache is hit, classifiers accumulate
                r2 = random.Random(json.dumps(case, sort_keys=True))
                yield dict(case, max_iter=r2.choice([14, 22, 35]), nu="1/100000", eps=r2.choice(["1/50", "1/100"]),
                           bound=r2.choice(["0", "1/100"]), linprog=r2.random() < 0.5)

    @staticmethod
    def _gen_sel(rng):
        """a synthetic gap sequence (what the iterations would record) with near-ties around _PRECISION, for the
        loop-exit / best-iterate model; independent of the data set"""
        mi = rng.choice([1, 2, 5, 6, 7, 8, 10, 12])
        base = [F(1, 4), F(1, 8), F(1, 8) + F(5, 10 ** 9), F(1, 8) + F(1, 10 ** 8), F(1, 8) + F(2, 10 ** 8), F(1, 16),
                F(3, 16), F(1, 2), F(0)]
        gaps = [rng.choice(base) for _ in range(mi)]
        nu = rng.choice([F(0), F(1, 10), F(1, 8), F(1, 8) + F(1, 10 ** 8), F(1, 7), F(1)])
        return {"gaps": [str(v) for v in gaps], "nu": str(nu)}

    @staticmethod
    def _select_oracle(gaps, nu):
        """documented behaviour: leave at the first t >= 5 with gap < nu; return the LAST iterate whose gap is within
        1e-8 of the smallest recorded gap"""
        rec = []
        for t, v in enumerate(gaps):
            rec.append(v)
            if v < nu and t >= 5:
                break
        m = min(rec)
        kept = [i for i, v in enumerate(rec) if v <= m + F(1, 10 ** 8)]
        return len(rec), kept[-1], rec[kept[-1]]

    def shrink(self, case):
        for mi in sorted({1, 2, case["max_iter"] // 2, case["max_iter"] - 1}):
            if 1 <= mi < case["max_iter"]:
                yield dict(case, max_iter=mi)
        n = len(case["x"]) if not case.get("hclass") else 0     # an explicit class is tied to the feature values: rows are kept
        for i in range(n):
            c = dict(case)
            for key in ("x", "y", "g"):
                c[key] = case[key][:i] + case[key][i + 1:]
            if len(c["x"]) >= 3 and len(set(c["y"])) == 2 and len(set(c["g"])) >= 2 and len(set(c["x"])) >= 2:
                yield c
        if case["linprog"]:
            yield dict(case, linprog=False)
        if case["nu"] is not None:
            yield dict(case, nu=None)
        if case.get("container") != "df":
            yield dict(case, container="df")
        if case["eta0"] != "2":
            yield dict(case, eta0="2")

    # ---------------------------------------------------------------- implementation
    def impl(self, case):
        import fairlearn.reductions as red
        from sklearn.dummy import DummyClassifier
        X, y, sf = containers(case)
        eg = red.ExponentiatedGradient(
            SoftTraceLearner(tuple(tuple(h) for h in case["hclass"])) if case.get("hclass") else egreplay.TraceLearner(case["kind"]),
            mk_moment(case), eps=float(F(case["eps"])), max_iter=case["max_iter"],
            nu=None if case["nu"] is None else float(F(case["nu"])), eta0=float(F(case["eta0"])),
            run_linprog_step=case["linprog"])
        if case.get("history"):
            # previous life of the SAME estimator (hence the same constraints) object: a fit on an auxiliary data set -- the
            # case's rows reversed, labels inverted, one extra group -- and one prediction, OUTSIDE the recording, before the
            # fit that is recorded and judged.  State that survives a refit (memoised supports, caches that fit / load_data do
            # not reset; seeded changes C10b, C07a) then shows up in the judged fit.  The `nu` latch of fit (known finding F5c,
            # judged under C19) is undone so that the judged fit starts from the case's own `nu`.
            x0, y0, g0 = list(case["x"])[::-1], [1 - v for v in case["y"]][::-1], list(case["g"])[::-1]
            if g0.count(g0[0]) >= 2:
                g0[0] = "zz"
            X0, Y0, S0 = containers(dict(case, x=x0, y=y0, g=g0))
            try:
                eg.fit(X0, Y0, sensitive_features=S0)
                Xq0 = test_matrix(case, sorted(set(case["x"])))
                eg._pmf_predict(Xq0)
                eg.predict(Xq0, random_state=0)
            except ValueError:
                pass        # the known zero-signed-weights crash (F14) on the auxiliary data: no previous life then
            eg.set_params(nu=None if case["nu"] is None else float(F(case["nu"])))
        try:
            with egreplay.recording() as events:
                ret = eg.fit(X, y, sensitive_features=sf)
                trace = [[e[0], list(e[1]) if e[0] == "h" else e[1]] for e in events]
        except ValueError as e:
            # diagnose the crash site (only to recognise finding F14 exactly): were all signed weights 0 in _call_oracle?
            zero = False
            tb = e.__traceback__
            while tb is not None:
                if tb.tb_frame.f_code.co_name == "_call_oracle":
                    # name-independent (a rename of the local must not turn the known finding into an alarm): some
                    # numeric per-row vector of the frame is identically 0, i.e. the signed weights all vanished
                    for v in list(tb.tb_frame.f_locals.values()):
                        try:
                            a = np.asarray(v, dtype=float)
                        except (TypeError, ValueError):
                            continue
                        if a.ndim == 1 and a.shape[0] == len(case["y"]) and float(np.abs(a).sum()) == 0.0:
                            zero = True
                tb = tb.tb_next
            return {"exc": "ValueError", "zero_signed_weights_in_call_oracle": bool(zero)}
        vals = sorted(set(case["x"]))
        Xt = test_matrix(case, vals)
        out = {"returns_self": ret is eg}
        pidx = list(eg.predictors_.index)
        if case.get("hclass"):      # soft predictions: the exact rational value of every float
            out["predictors"] = [[str(F(float(v))) for v in np.asarray(eg.predictors_[i].predict(Xt)).reshape(-1)] for i in pidx]
        else:
            out["predictors"] = [[int(v) for v in np.asarray(eg.predictors_[i].predict(Xt)).reshape(-1)] for i in pidx]
        out["dummy"] = [isinstance(eg.predictors_[i], DummyClassifier) for i in pidx]
        out["weights_index_ok"] = sorted(eg.weights_.index) == sorted(pidx)
        out["weights"] = [float(eg.weights_[i]) for i in pidx if i in eg.weights_.index]
        out["best_gap"] = float(eg.best_gap_)
        out["best_iter"] = int(eg.best_iter_)
        out["last_iter"] = int(eg.last_iter_)
        out["nu"] = float(eg.nu)
        out["n_oracle_calls"] = int(eg.n_oracle_calls_)
        out["n_dummy"] = int(eg.n_oracle_calls_dummy_returned_)
        b = out["best_iter"]
        lam_eg = eg.lambda_vecs_EG_[list(range(b + 1))].mean(axis=1)
        out["lam_index"] = [list(idx_key(t)) for t in lam_eg.index]
        out["lam_EG"] = [float(v) for v in lam_eg.tolist()]
        out["lam_EG_cols"] = int(eg.lambda_vecs_EG_.shape[1])
        if b in eg.lambda_vecs_LP_.columns:
            out["lam_LP"] = [float(v) for v in eg.lambda_vecs_LP_[b].reindex(lam_eg.index).tolist()]
        else:
            out["lam_LP"] = None
        # observables of the main loop (C08 extension): every multiplier column, the LP multipliers, the external-call trace
        out["trace"] = trace
        out["lam_cols_raw"] = [[float(v) for v in eg.lambda_vecs_EG_[t].reindex(lam_eg.index).tolist()]
                               for t in eg.lambda_vecs_EG_.columns]
        out["lam_lp_raw"] = {str(int(t)): [float(v) for v in eg.lambda_vecs_LP_[t].reindex(lam_eg.index).tolist()]
                             for t in eg.lambda_vecs_LP_.columns}
        pmf = np.asarray(eg._pmf_predict(Xt))
        out["pmf1"] = [float(v) for v in pmf[:, 1]]
        out["pmf_rows_sum"] = [float(v) for v in pmf.sum(axis=1)]
        return out

    # ---------------------------------------------------------------- oracle helpers
    def _q(self, H, o):
        """weights_ as a vector over the whole class (exact Fractions of the floats)"""
        Q = [F(0)] * len(H)
        for lab, w in zip(o["predictors"], o["weights"]):
            t = lab_key(lab)
            if t not in H:
                return None
            Q[H.index(t)] += F(w)
        return Q

    def _lams(self, P, o):
        idx = [tuple(k) for k in o["lam_index"]]
        out = []
        for name in ("lam_EG", "lam_LP"):
            if o.get(name) is not None:
                d = dict(zip(idx, o[name]))
                out.append((name, [F(d[k]) for k in P.index]))
        return out

    @staticmethod
    def zero_weight_multiplier(case):
        """Is there a multiplier vector lambda >= 0 at which EVERY signed weight (error weights + constraint
        weights) is exactly 0?  Exact LP: maximise tau over (x, tau) in the simplex with  A x + w_obj tau = 0."""
        P = problem_of(case)
        w0 = P.signed_weights({}, with_objective=True)
        cols = []
        for k in P.index:
            wk = P.signed_weights({k: 1}, with_objective=True)
            cols.append([a - b for a, b in zip(wk, w0)])
        nvar = len(cols) + 1
        rows = []
        for i in range(P.n):
            r = [cols[j][i] for j in range(len(cols))] + [w0[i]]
            rows.append(r)
            rows.append([-v for v in r])
        st, val, x = ro.simplex_min([F(0)] * (nvar - 1) + [F(-1)], rows, [F(0)] * len(rows))
        return st == "optimal" and val < 0

    def lines(self, case, o):
        if "crash" in o or "exc" in o:
            return []
        P, H, errs, gams = table_of(case)
        Q = self._q(H, o)
        if Q is None or sorted(map(tuple, o["lam_index"])) != sorted(P.index):
            return []
        B = 1 / F(case["eps"])
        r1 = P.ratio == 1
        ls = []
        for _, lam in self._lams(P, o):
            ls.append(f"saddle.eval {proto.rat(B)} {proto.b(r1)} {proto.lst(errs)} "
                      f"{proto.mat([[gm[k] for gm in gams] for k in P.index])} "
                      f"{proto.lst([P.eps] * len(P.index))} {proto.lst(Q)} {proto.lst(lam)}")
        if case.get("sel"):
            gaps = [F(v) for v in case["sel"]["gaps"]]
            ls.append(f"saddle.select {proto.lst(gaps)} {proto.rat(F(case['sel']['nu']))} {len(gaps)}")
        rp = loop_replay(case, o) if "trace" in o else None
        if rp is not None:
            if not rp.stuck:
                ls += egreplay.lp_lines(rp)              # 2 lines per selected LP solve, just before ...
            ls.append(egreplay.loop_line(case, rp))     # ... the loop line, always the LAST line of the case
        return ls

    @staticmethod
    def _project(P, lam):
        if P.ratio != 1:
            return list(lam)
        m = len(lam) // 2
        pos = [max(lam[j] - lam[j + m], 0) for j in range(m)]
        neg = [max(lam[j + m] - lam[j], 0) for j in range(m)]
        return pos + neg

    def _true_gap(self, P, errs, gams, Q, lam, B):
        lamp = self._project(P, lam)
        c = P.eps
        errQ = sum(q * e for q, e in zip(Q, errs))
        gQ = [sum(q * gm[k] for q, gm in zip(Q, gams)) for k in P.index]
        L = errQ + sum(l * (gj - c) for l, gj in zip(lamp, gQ))
        mv = max(gj - c for gj in gQ)
        Lhigh = errQ + (B * mv if mv > 0 else 0)
        pure = [e + sum(l * (gm[k] - c) for l, k in zip(lamp, P.index)) for e, gm in zip(errs, gams)]
        Llow = min([L] + pure)
        return errQ, L, Lhigh, Llow, max(L - Llow, Lhigh - L), mv, gQ

    # ---------------------------------------------------------------- judging
    def judge(self, case, o, mo):
        """model-vs-oracle disagreements are HARNESS errors only while the lifted text is the pinned one and no lifter behind a
        generated file of this property refused; otherwise they are a broken tie (correspondence)"""
        probs = self._judge(case, o, mo)
        if any(p.kind == "harness" for p in probs):
            ch = lifted_changes()
            if ch:
                probs = [Problem("correspondence", p.msg + f"; lifted source fragment(s) changed / refused: {ch[:4]}",
                                 "C08.generated-model-vs-spec") if p.kind == "harness" else p for p in probs]
        return probs

    def _judge(self, case, o, mo):
        if "crash" in o:
            return [Problem("correspondence", f"implementation crashed: {o}", "impl-total")]
        if "exc" in o:
            if o.get("zero_signed_weights_in_call_oracle") and self.zero_weight_multiplier(case):
                return [Problem("property", "ExponentiatedGradient.fit raised ValueError on a data set for which some "
                                            "multiplier vector makes every signed weight exactly 0 (0/0 in the weight "
                                            "normalisation of _call_oracle)", "C08.nan_weights")]
            return [Problem("property", f"ExponentiatedGradient.fit raised {o['exc']} inside the quantifier", "C08.fit-total")]
        probs = []
        P, H, errs, gams = table_of(case)
        B = 1 / F(case["eps"])
        g = o["best_gap"]
        tol = PRECISION + ROUND * max(1.0, abs(g))
        # -- Q is a probability vector over predictors_ ------------------------------------------------------
        w = o["weights"]
        if (not o["weights_index_ok"]) or len(w) != len(o["predictors"]):
            probs.append(Problem("property", "weights_ and predictors_ are not indexed alike", "C08.Q-distribution"))
            return probs
        if min(w) < -W_TOL or abs(sum(w) - 1.0) > W_TOL:
            probs.append(Problem("property", f"weights_ is not a probability vector: min {min(w)}, sum {sum(w)}",
                                 "C08.Q-distribution"))
        Q = self._q(H, o)
        if Q is None:
            probs.append(Problem("correspondence", "a predictor is outside the enumerated class", "C08.class"))
            return probs
        if sorted(map(tuple, o["lam_index"])) != sorted(P.index):
            probs.append(Problem("correspondence", f"multiplier index {o['lam_index']} != observed constraints {P.index}",
                                 "C08.index"))
            return probs
        if not (0 <= o["best_iter"] <= o["last_iter"] < case["max_iter"]) or o["lam_EG_cols"] != o["last_iter"] + 1:
            probs.append(Problem("property", f"best_iter_={o['best_iter']} last_iter_={o['last_iter']} "
                                             f"max_iter={case['max_iter']} recorded EG multipliers={o['lam_EG_cols']}",
                                 "C08.best_iter_spec"))
        # -- certificate: best_gap_ >= true duality gap of (Q, recorded multiplier) --------------------------------
        cands = []
        for name, lam in self._lams(P, o):
            if float(min(lam)) < -LAM_TOL:
                probs.append(Problem("property", f"recorded multiplier {name} has a negative entry {float(min(lam))}",
                                     "C08.saddle_error hypothesis lambda >= 0"))
            cands.append((name,) + self._true_gap(P, errs, gams, Q, lam, B))
        true_gaps = [float(c[5]) for c in cands]
        # the LITERAL clause "best_gap_ >= true duality gap": float slack only.  An understatement of at most _PRECISION that
        # goes with a sub-_PRECISION best_h cache hit in the recorded trace is known finding F23 (matched in `known`);
        # every other understatement is a violation.
        tol_lit = ROUND * max(1.0, abs(g))
        if g < min(true_gaps) - tol_lit:
            probs.append(Problem("property", f"best_gap_ = {g} is smaller than the true duality gap of weights_ against the "
                                             f"recorded multiplier(s): {dict(zip([c[0] for c in cands], true_gaps))} "
                                             f"(understated by {min(true_gaps) - g:.3e})",
                                 "C08.gap_ge_true_gap"))
        elif all(abs(g - t) > tol_lit for t in true_gaps):
            probs.append(Problem("correspondence", f"best_gap_ = {g} coincides with none of the exact gaps "
                                                   f"{dict(zip([c[0] for c in cands], true_gaps))}", "C08.gap (model)"))
        # -- the two guarantees against the exact constrained optimum -----------------------------------------------
        A = [[gm[k] for gm in gams] for k in P.index]
        st, opt, xopt = ro.simplex_min(errs, A, [P.eps] * len(P.index))
        errQ, mv = cands[0][1], cands[0][6]
        if st != "optimal":
            probs.append(Problem("harness", "constrained problem infeasible over a class that contains both constants"))
        else:
            if float(errQ) > float(opt) + 2 * g + tol:
                probs.append(Problem("property", f"error(Q) = {float(errQ)} > constrained optimum {float(opt)} + 2*best_gap_ "
                                                 f"({g})", "C08.saddle_error"))
            if float(mv) > (1 + 2 * g) / float(B) + tol:
                probs.append(Problem("property", f"largest constraint excess {float(mv)} > (1 + 2*best_gap_)/B = "
                                                 f"{(1 + 2 * g) / float(B)}", "C08.saddle_violation"))
        # -- early stop ---------------------------------------------------------------------------------------
        if o["last_iter"] < case["max_iter"] - 1:
            if not (g < o["nu"]):
                probs.append(Problem("property", f"fitting stopped after {o['last_iter'] + 1} < max_iter={case['max_iter']} "
                                                 f"iterations but best_gap_ = {g} >= nu = {o['nu']}", "C08.early_stop_lt_nu"))
        if case["nu"] is not None and abs(o["nu"] - float(F(case["nu"]))) > 0:
            probs.append(Problem("correspondence", "a user-supplied nu was changed by fit", "C08.nu"))
        # -- pmf is the mixture ----------------------------------------------------------------------------------
        mix = [sum(wi * float(F(lab[j])) for wi, lab in zip(w, o["predictors"])) for j in range(len(o["pmf1"]))]
        if any(abs(a - b_) > PMF_TOL for a, b_ in zip(mix, o["pmf1"])) or any(abs(s - 1) > PMF_TOL for s in o["pmf_rows_sum"]):
            probs.append(Problem("property", f"_pmf_predict {o['pmf1']} is not the weights_-mixture of predictors_ {mix}",
                                 "C08.pmf"))
        # -- automatic nu (nu=None): _ACCURACY_MUL * std(|h_0(X) - y|) / sqrt(n), h_0 = the first best response --------------
        if case["nu"] is None and o.get("trace"):
            ev0 = o["trace"][0]
            vals_ = sorted(set(case["x"]))
            lab0 = list(ev0[1]) if ev0[0] == "h" else [int(ev0[1])] * len(vals_) if ev0[0] == "d" else None
            if lab0 is not None and len(case["y"]) > 1:
                dd = [abs(F(lab0[vals_.index(xv)]) - yv) for xv, yv in zip(case["x"], case["y"])]
                mean_ = sum(dd, F(0)) / len(dd)
                var_ = sum(((d - mean_) ** 2 for d in dd), F(0)) / (len(dd) - 1)          # pandas std: ddof = 1
                want_sq = F(1, 4) * var_ / len(dd)
                if abs(o["nu"] ** 2 - float(want_sq)) > 1e-12 * max(1.0, float(want_sq)):
                    probs.append(Problem("correspondence", f"automatic nu = {o['nu']} but _ACCURACY_MUL * std(|h0(X) - y|) / sqrt(n) = "
                                                           f"{math.sqrt(float(want_sq))} for the first best response {lab0}", "C08.nu-auto"))
        # -- the main loop: implementation vs documented algorithm on the recorded answers vs Lean state machine ------------
        rp = loop_replay(case, o) if "trace" in o else None
        if rp is None:
            if "trace" in o:
                probs.append(Problem("correspondence", f"the recorded external-call trace cannot be replayed: {o.get('_replay_error')}",
                                     "C08.loop trace"))
        else:
            obs = loop_observables(case, o, P, H, errs)
            diffs = egreplay.compare_impl(case, obs, rp)
            if diffs and rp.fragile:
                diffs = egreplay.compare_prefix(case, obs, rp)        # what cannot depend on the near-tie is still compared
                o["_loop_divergence_at_near_tie"] = not diffs
            for rel, msg in diffs[:3]:
                probs.append(Problem("correspondence", msg, rel))
            o.setdefault("_loop_divergence_at_near_tie", False)
            if mo:
                got = egreplay.parse_loop(mo[-1])
                mo = mo[:-1]
                want = egreplay.replay_as_model(rp)
                bad = [k for k in want if got.get(k) != want[k]] if ("stuck" not in got and "stuck" not in want) else \
                    ([] if ("stuck" in got and "stuck" in want) else ["stuck"])
                if bad:
                    msg = (f"Lean loop model != exact replay in {bad}: model "
                           f"{ {k: str(got.get(k))[:120] for k in bad[:3]} } replay { {k: str(want.get(k))[:120] for k in bad[:3]} }")
                    ch = lifted_changes()
                    probs.append(Problem("correspondence", msg + f"; lifted source fragment(s) changed: {ch}",
                                         "C08.loop (lifted) " + ",".join(ch)) if ch else Problem("harness", msg))
                nlp = 0 if rp.stuck else 2 * len(egreplay.lp_selection(rp))
                if nlp:
                    lp_mo, mo = mo[-nlp:], mo[:-nlp]
                    for kind, rel, msg in egreplay.lp_compare(rp, lp_mo)[:3]:
                        if kind == "harness":
                            ch = lifted_changes()
                            probs.append(Problem("correspondence", msg + f"; lifted: {ch}", "C08.linprog (lifted)") if ch
                                         else Problem("harness", msg))
                        else:
                            probs.append(Problem("correspondence", msg, rel))
        # -- model --------------------------------------------------------------------------------------------------
        if mo is not None:
            if case.get("sel") and mo:
                want = self._select_oracle([F(v) for v in case["sel"]["gaps"]], F(case["sel"]["nu"]))
                t = mo[-1].split(" ")
                mo = mo[:-1]
                if t[0] == "bad-op" or "none" in t or (int(t[0]), int(t[1]), proto.p_rat(t[2])) != want:
                    msg = f"selection model {t} != documented loop-exit/best-iterate rule {want} on {case['sel']}"
                    ch = lifted_changes()
                    probs.append(Problem("correspondence", msg + f"; lifted fragment(s) changed: {ch}",
                                         "C08.selection (lifted)") if ch else Problem("harness", msg))
            if len(mo) != len(cands):
                probs.append(Problem("harness", f"{len(mo)} model lines for {len(cands)} multipliers"))
            for line, c in zip(mo, cands):
                if line == "bad-op":
                    probs.append(Problem("harness", "model: bad-op"))
                    continue
                t = line.split(" ")
                got = [proto.p_rat(v) for v in t[:6]] + [proto.p_list(t[6])]
                want = list(c[1:7]) + [c[7]]
                if got != want:
                    msg = (f"model {c[0]} (err, L, L_high, L_low, gap, max violation): {[float(v) for v in got[:6]]} != "
                           f"oracle {[float(v) for v in want[:6]]}")
                    ch = lifted_changes()
                    if ch:
                        probs.append(Problem("correspondence", msg + f"; lifted source fragment(s) changed: {ch}",
                                             "C08.lifted expressions " + ",".join(ch)))
                    else:
                        probs.append(Problem("harness", msg))
        # -- scipy cross-check of the exact optimum (our own machinery) -------------------------------------------------
        if st == "optimal" and case.get("_xcheck", True):
            from scipy.optimize import linprog
            res = linprog([float(v) for v in errs], A_ub=[[float(v) for v in r] for r in A],
                          b_ub=[float(P.eps)] * len(P.index), A_eq=[[1.0] * len(errs)], b_eq=[1.0], method="highs")
            if res.status != 0 or abs(res.fun - float(opt)) > 1e-7:
                probs.append(Problem("harness", f"exact simplex optimum {float(opt)} != scipy {res.fun} (status {res.status})"))
        return probs

    def known(self, case, problem, entries):
        if problem.relation == "C08.nan_weights":
            for e in entries:
                if e.get("predicate") == "zero_weight_multiplier":
                    return e
        if problem.relation == "C08.gap_ge_true_gap" and problem.kind == "property":
            # F23: best_gap_ understates the true gap by at most _PRECISION (+ float slack) AND the exact replay of the recorded
            # trace contains a best_h call in which the oracle's answer was strictly better than every stored classifier by less
            # than _PRECISION (so the cached classifier was returned).  Both conditions are recomputed here from the run.
            ents = [e for e in entries if e.get("predicate") == "sub_precision_cache_hit"]
            if not ents:
                return None
            o = self.safe_impl(case)
            if not isinstance(o, dict) or "best_gap" not in o or "trace" not in o:
                return None
            P, H, errs, gams = table_of(case)
            Q = self._q(H, o)
            if Q is None or sorted(map(tuple, o["lam_index"])) != sorted(P.index):
                return None
            B = 1 / F(case["eps"])
            g = o["best_gap"]
            under = min(float(self._true_gap(P, errs, gams, Q, lam, B)[4]) for _, lam in self._lams(P, o)) - g
            rp = loop_replay(case, o)
            if rp is None or rp.stuck or not rp.sub_prec_hits:
                return None
            if 0 < under <= PRECISION + ROUND * max(1.0, abs(g)):
                return ents[0]
        return None

    def signature(self, case, o):
        tags = [f"moment={case['moment']}", "bound=ratio" if case.get("ratio") else "bound=diff",
                f"eps={case['eps']}", f"groups={len(set(case['g']))}", f"values={len(set(case['x']))}",
                f"kind={case['kind']}", "linprog=on" if case["linprog"] else "linprog=off",
                "nu=auto" if case["nu"] is None else "nu=given",
                "max_iter=" + ("1" if case["max_iter"] == 1 else "2-5" if case["max_iter"] <= 5 else
                               "6-15" if case["max_iter"] <= 15 else "16-50"),
                f"container={case.get('container')}",
                "history=refit-after-a-previous-life" if case.get("history") else "history=fresh"]
        nontriv = False
        if case.get("sel"):
            n_rec = self._select_oracle([F(v) for v in case["sel"]["gaps"]], F(case["sel"]["nu"]))
            tags.append("synthetic-selection=" + ("early-stop" if n_rec[0] < len(case["sel"]["gaps"]) else "full") +
                        ("/best<last" if n_rec[1] < n_rec[0] - 1 else "/best=last"))
        if "exc" in o:
            tags.append("exc=" + o["exc"] + (" (zero-weight multiplier exists)" if self.zero_weight_multiplier(case) else ""))
        if "best_gap" in o:
            P, H, errs, gams = table_of(case)
            Q = self._q(H, o)
            B = 1 / F(case["eps"])
            tags.append("predictors=" + ("1" if len(o["predictors"]) == 1 else "2-3" if len(o["predictors"]) <= 3 else "4+"))
            support = sum(1 for w in o["weights"] if w > 1e-9)
            tags.append("support=" + ("1" if support == 1 else "2+"))
            early = o["last_iter"] < case["max_iter"] - 1
            tags.append("early-stop" if early else "ran-to-max_iter")
            tags.append("best_iter=last" if o["best_iter"] == o["last_iter"] else "best_iter<last")
            tags.append("gap=0" if o["best_gap"] < 1e-9 else "gap<nu" if o["best_gap"] < o["nu"] else "gap>=nu")
            if o["n_dummy"]:
                tags.append("dummy-used")
            if Q is not None and sorted(map(tuple, o["lam_index"])) == sorted(P.index):
                gaps = {name: float(self._true_gap(P, errs, gams, Q, lam, B)[4]) for name, lam in self._lams(P, o)}
                tol = PRECISION + ROUND * max(1.0, abs(o["best_gap"]))
                m = [n for n, t in gaps.items() if abs(t - o["best_gap"]) <= tol]
                tags.append("branch=" + ("+".join(sorted(m)) if m else "none"))
                mv = float(self._true_gap(P, errs, gams, Q, self._lams(P, o)[0][1], B)[5])
                tags.append("constraint=violated" if mv > 1e-9 else "constraint=met")
            nontriv = len(o["predictors"]) > 1 or o["best_gap"] > 1e-9 or early
            rp = loop_replay(case, o) if "trace" in o else None
            if rp is not None and not rp.stuck:
                tags.append("loop:returned=" + ("LP" if rp.from_lp[rp.best_iter] else "EG") + "-iterate")
                tags.append("loop:LP-chosen-iterations=" + ("0" if not any(rp.from_lp) else "some" if not all(rp.from_lp[1:]) else "all"))
                tags.append(f"loop:eta-shrinks={min(rp.shrinks, 3)}{'+' if rp.shrinks > 3 else ''}")
                tags.append(f"loop:regret-checks={rp.checks}")
                tags.append("loop:lp-cache-hit" if rp.cache_hits else "loop:lp-cache-miss-only")
                tags.append("loop:stored-classifiers=" + ("1" if len(rp.hs) == 1 else "2-3" if len(rp.hs) <= 3 else "4+"))
                tags.append("loop:oracle-answers-not-stored=" + ("0" if rp.calls == len(rp.hs) else "some"))
                tags.append("loop:" + ("near-tie:" + "|".join(rp.fragile) if rp.fragile else "no-near-tie"))
                if o.get("_loop_divergence_at_near_tie"):
                    tags.append("loop:divergence-at-near-tie(not compared)")
                tags.append("loop:" + ("break" if rp.done else "max_iter"))
                tags.append("linprog:solves=" + ("0" if not rp.lp_calls else "1-3" if rp.lp_calls <= 3 else "4+"))
        return (repr(sorted((k, str(v)) for k, v in case.items())), nontriv, tags)
