"""C01 — MetricFrame disaggregation is exact: each cell is the metric on that subgroup."""
import itertools
import json
from fractions import Fraction as F

import numpy as np
import pandas as pd

from .. import proto
from ..core import Check, Problem, register
from . import mfcommon as mc

STR_POOLS = [["a", "b", "c", "d"], ["x", "y", "z", "w"], ["B", "a", "aa", "a b"], ["10", "9", "é", "Z"],
             ["", "b", "ab", "a,b"], ["lo", "hi", "mid", "LO"]]
INT_POOLS = [[0, 1, 2, 3], [2, 10, 9, 100], [7, 3, 12, 1]]
SF_NAMES = ["s0", "s1", "grp", "Sex", "a b"]
CF_NAMES = ["c0", "c1", "ctrl", "Z"]
EXPECTED_TYPES = {  # (bare?, has control features) -> (by_group type, overall type)   [docstring of MetricFrame.overall]
    (True, False): ("Series", "scalar"), (True, True): ("Series", "Series"),
    (False, False): ("DataFrame", "Series"), (False, True): ("DataFrame", "DataFrame"),
}


# Tolerance of every float-vs-exact comparison of this check, relative to max(1, |exact|).  MEASURED (review R3, clean tree,
# seeds 0..2 of the quick generator, 3138 MetricFrame cases / 34008 compared cells): max deviation 9.9e-17 (one final
# division; all sums are exact on the generated dyadic inputs; theoretical bound 0.5 ulp = 1.1e-16).  5e-15 = 50 x measured.
TOL = 5e-15


def dy(rng, hi=24):
    return str(F(rng.randint(1, hi), rng.choice([1, 1, 2, 4, 8])))


# sha256 of lean/FairModel/Generated/FrameSrc.lean as translated from the pinned tree (see c14.PINNED_SRC_SHA256 for the rule)
PINNED_FRAMESRC_SHA256 = "3c26ace9acf61b6f72150dfd6274773c326980033a169c64e8e928199d2a6764"
_SRC_STATE = {}


PINNED_FEATURENAMESSRC_SHA256 = "0a1c89dbd252b51be39880b53886247aba29460f17ac5c7899ae255925b64c88"


def _generated_changed(fname, pinned):
    if fname not in _SRC_STATE:
        import hashlib
        import os
        from .. import leanrun
        path = os.path.join(leanrun.LEAN, "FairModel", "Generated", fname)
        try:
            with open(path, "rb") as f:
                _SRC_STATE[fname] = hashlib.sha256(f.read()).hexdigest() != pinned
        except OSError:
            _SRC_STATE[fname] = False
    return _SRC_STATE[fname]


def framesrc_changed():
    return _generated_changed("FrameSrc.lean", PINNED_FRAMESRC_SHA256)


def featurenamessrc_changed():
    return _generated_changed("FeatureNamesSrc.lean", PINNED_FEATURENAMESSRC_SHA256)


def kw_sum(y_true, y_pred, **kw):
    """pool metric `kwsum`: accepts ANY keyword names; the sum of all keyword arrays (injective in the rows for ids=2^i)"""
    return float(sum(np.sum(np.asarray(v, dtype=float)) for v in kw.values()))


def spec_params(spec):
    """ordered (keyword name, values or None) of one metric spec, exactly as mfcommon.sample_params_of builds the dict"""
    if spec["tag"] == "kwsum":
        return [(k, v) for k, v in spec["kw"].items()]
    out = []
    if (len(spec.get("w") or ()) + len(spec.get("ids") or ())) % 2 == 1:
        out.append(("unused", None))
    for key, nm in (("w", "sample_weight"), ("ids", "ids"), ("a", "a")):
        if spec.get(key) is not None:
            out.append((nm, spec[key]))
    return out


def sample_params_for(spec, index=None):
    if spec["tag"] == "kwsum":
        wrap = (lambda a: pd.Series(a, index=index)) if index is not None else (lambda a: a)
        return {k: (None if v is None else wrap(np.array([float(F(x)) for x in v]))) for k, v in spec["kw"].items()}
    return mc.sample_params_of(spec, index)


def pyfunc_for(tag):
    return kw_sum if tag == "kwsum" else mc.pyfunc(tag)


def p0p1_for(spec, n):
    """(driver metric tag, p0, p1) of the single-metric model line: kwsum = sum over rows of the row-wise keyword sum"""
    if spec["tag"] == "kwsum":
        p1 = [sum((F(v[i]) for v in spec["kw"].values() if v is not None), F(0)) for i in range(n)]
        return "fprows", [F(1)] * n, p1
    p0, p1 = mc.p0p1(spec, n)
    return spec["tag"], p0, p1


def column_names(case):
    """the all_data column names MetricFrame creates for the sample parameters of a case (f"{name}_{param}")"""
    names = [None] if case["bare"] else list(case["names"])
    return [f"{nm}_{pn}" for nm, s in zip(names, case["specs"]) for pn, v in spec_params(s) if v is not None]


def columns_collide(case):
    """two sample parameters would share the column f"{name}_{param}" (or shadow y_true / y_pred) without the uniquify loop of
    _construct_annotated_metric_function: the input shape of finding F19 (used as a distribution tag only)"""
    cols = column_names(case) + ["y_true", "y_pred"]
    return len(set(cols)) != len(cols)


# --------------------------------------------------------------------------- feature-name stream (kind == "names")
NAME_POOL = ["a", "A", "b", "grp", "y_true", "y_pred", "m_w", "m_w_", "m_c_d", "Sex", "a b", "sensitive_feature_0", "control_feature_0", "sensitive_feature_1", "y", ""]


def names_container(spec, n):
    """the Python object for a container spec {"c": kind, "names": [...]} with n rows"""
    c, names = spec["c"], spec["names"]
    k = len(names)
    cols = [[("v%d" % ((i + j) % 2)) for i in range(n)] for j in range(k)]
    if c == "series":
        return pd.Series(cols[0], name=names[0])
    if c == "df":
        return pd.DataFrame(np.array(cols, dtype=object).T.reshape(n, k), columns=list(names))
    if c == "dict":
        return {nm: col for nm, col in zip(names, cols)}
    if c == "dict_ragged":
        return {nm: col[: n - j] for j, (nm, col) in enumerate(zip(names, cols))}
    if c == "list":
        return list(cols[0])
    if c == "list_nonscalar":
        return [list(r) for r in np.array(cols, dtype=object).T.reshape(n, k)]
    if c == "ndarray":
        return np.array(cols, dtype=object).T.reshape(n, k)
    if c == "ndarray3d":
        return np.array([[["p", "q"], ["r", "s"]]] * n, dtype=object)
    raise KeyError(c)


def names_token(spec, n):
    """the container as the Lean model sees it"""
    c, names = spec["c"], spec["names"]
    enc = (lambda v: "other" if not isinstance(v, str) else proto.s(v))
    lst = (lambda vs: ",".join(enc(v) for v in vs) if vs else "-")
    if c == "series":
        return "series:none" if names[0] is None else "series:" + enc(names[0])
    if c == "df":
        return "df:" + lst(names)
    if c == "dict":
        return "dict:" + lst(names) + ":1"
    if c == "dict_ragged":
        return "dict:" + lst(names) + ":0"
    if c == "list":
        return "list:1"
    if c == "list_nonscalar":
        return "list:0"
    if c == "ndarray":
        k = len(names)
        return f"array:2:{k}" if (n == 1 or k > 1) else "array:1:0"
    if c == "ndarray3d":
        return "array:3:0"
    raise KeyError(c)


def names_data_columns(case):
    """first principles: the columns of all_data when the features are added: y_true, y_pred and one column per sample
    parameter, f"{metric}_{param}" with '_' appended until the name is free"""
    cols = ["y_true", "y_pred"]
    for mname, pnames in case.get("params") or []:
        for pn in pnames:
            c = f"{mname}_{pn}"
            while c in cols:
                c += "_"
            cols.append(c)
    return cols


def names_oracle(base, spec, n):
    """first principles: the names a container must get, or 'reject'"""
    c, names = spec["c"], spec["names"]
    if c == "series":
        if names[0] is None:
            return [base + "0"]
        return [names[0]] if isinstance(names[0], str) else "reject"
    if c in ("df", "dict"):
        return list(names) if all(isinstance(v, str) for v in names) else "reject"
    if c in ("dict_ragged", "list_nonscalar", "ndarray3d"):
        return "reject"
    if c == "list":
        return [base + "0"]
    if c == "ndarray":
        k = len(names)
        return [base + str(i) for i in range(k)] if (n == 1 or k > 1) else [base + "0"]
    raise KeyError(c)


@register
class CHECK(Check):
    pid = "C01"
    technique = ("Lean 4 theorems over a generic model of DisaggregatedResult._apply_functions (arbitrary metric function), over "
                 "the TRANSLATION of _apply_functions / create / apply_to_dataframe / AnnotatedMetricFunction.__call__ / the "
                 "sample-parameter loop / _extract_result (lifter frame.py -> Generated/FrameSrc.lean, proved equal to the model), "
                 "over a multi-metric frame model and a feature-name model (lifter feature_names.py) + compiled-driver "
                 "correspondence with MetricFrame.by_group/overall/sensitive_levels/control_levels")
    level_text = ("Theorems (all row lists, any number of control/sensitive columns, ARBITRARY metric function f): every "
                  "by_group entry is f on exactly the rows carrying that tuple (params travel with the row), NaN iff the tuple "
                  "has no rows; index = Cartesian product of observed values (observed values for one column), duplicate "
                  "free, sorted, control columns first; overall = f on all rows / on each control stratum; the non-empty "
                  "cells partition the rows (permutation). Tie: real MetricFrame vs the compiled Lean model over a pool of "
                  "14 metric callables incl. injective row-fingerprint metrics, 1-3 sensitive x 0-2 control features, all "
                  "feature container types; independent Fraction oracle decides violations. Translator tie: src_*_eq_model identify "
                  "the translated create/_apply_functions with Frame.byGroup/overall and every clause is restated for the "
                  "translation. Multi-metric frames (dict of any number of metrics, one shared all_data table, generated column "
                  "names): every column equals the single-metric frame of that function with exactly its own sample params "
                  "(multi_column_eq_single), for ANY metric / parameter names: the lifted uniquify loop makes the generated column "
                  "names pairwise distinct and different from y_true/y_pred (column_name_fresh, multi_columns_ok); under the "
                  "pre-repair naming rule the statement is false (legacy_crosstalk_witness, legacy_basecolumn_witness = finding "
                  "F19). Accessor result types from the lifted _extract_result. Feature names: pairwise distinct strings that "
                  "are never a data column whenever construction succeeds, which containers are rejected, defaults never collide "
                  "(names_*).")
    design_ref = "DESIGN.md section 4, C01"
    quick_cases = 1400
    thorough_cases = 8000
    quick_budget_s = 110
    thorough_budget_s = 900
    workers_thorough = 4
    rule = ("datasets of 1..40 rows; 1..3 sensitive and 0..2 control columns over alphabets of 1..4 string or int values "
            "(incl. '', 'a,b', non-ASCII, 2 vs 10); metrics drawn from a pool of 14 callables (count, selection_rate, tpr/fpr/"
            "tnr/fnr on {0,1} labels, mean_prediction, accuracy_score, signed mean error, 4 row-fingerprint metrics "
            "sum(ids), y.ids, pred.ids, a.ids with ids=2^i, a non-scalar confusion matrix), bare or in a dict of 1..3 with "
            "per-metric sample params (0..2 each: sample_weight / a / ids; integer or dyadic); containers list/ndarray/"
            "Series/DataFrame/dict, optionally with a permuted pandas index; feature names never 'y_true'/'y_pred' (those "
            "are rejected with KeyError by fairlearn - a rejection, not a wrong cell); NaN feature values not generated. "
            "30% of the cases are turned into dicts of 1..4 metrics (names incl. prefixes of each other) with DIFFERENT sample "
            "params per metric, one metric without any, the free-keyword metric kwsum, parameterless metrics with or without an "
            "entry in sample_params, 8% colliding column names (the F19 shapes: 'a'+'b_c' vs 'a_b'+'c'; metric 'y' with parameter 'pred'/'true'); 12% are feature-name cases: "
            "containers Series(name None/str/int), DataFrame (duplicate / int labels), dict (int keys, ragged), list, list of "
            "lists, 1-d/2-d/3-d arrays for sensitive and optional control features, 1..4 rows. "
            "Further restrictions of the generator (review R3): y_true in {0,1} (60%) or integers -2..5, y_pred in {0,1} or dyadic "
            "k/{1,2,4} with -8 <= k <= 16; sample_weight positive, integers 1..5 or dyadic k/{1,2,4,8} with 1 <= k <= 24; the free "
            "parameter a integers -3..7; ids = 2^i; every sample parameter is an array with exactly one value per row (or None) - "
            "scalar or wrong-length sample parameters, for which MetricFrame broadcasts / raises ValueError, are not generated; "
            "labels and predictions never NaN/None; one value type per feature column; at least one sensitive feature; metric and "
            "keyword names from fixed lists (incl. blanks, prefixes of each other, 'None'); pool metrics never raise on a "
            "non-empty slice; a permuted non-default index is carried by Series/DataFrame inputs only (y, features, sample "
            "params). n = 0 is outside the property and not generated. "
            "distinct = distinct (features, data, metric specs); non-trivial = >= 2 rows. thorough additionally "
            "enumerates ALL assignments of <= 5 rows to 2x3 sensitive levels and of <= 5 rows to 2 control x 3 sensitive levels")
    explanation = ("theorems over Model/Frame.lean for an arbitrary metric function (all inputs, no size bound); correspondence: "
                   "MetricFrame.by_group/overall/levels vs compiled driver (index order + values within 5e-15 relative to max(1,|v|); "
                   "measured max deviation 9.9e-17 over 34008 cells); oracle: "
                   "first-principles slices + exact Fraction metrics. Index ORDER and the pandas result types are compared "
                   "as correspondence relations only (the property speaks about the index as a set).")
    trusted = ("pandas groupby/reindex/MultiIndex.from_product and np.unique ordering are modelled by 'sorted distinct values' / "
               "'rows with equal key' (Frame.uniq, Frame.rowsOf) and checked only through the correspondence",
               "integer feature values are passed to the Lean model as zero-padded strings (order preserving for 0..999)",
               "sklearn confusion_matrix / accuracy_score are modelled by their definitions (BaseMetrics, MetricPool)",
               "the pandas primitives of Model/FramePrims.lean (data[col], groupby(names).apply, np.unique, MultiIndex.from_product, "
               "reindex, column assignment = shadowing, dict insertion) are specifications",
               "harness/lifters/frame.py and feature_names.py: the Python-ast -> Lean translation of the lifted bodies/constants")
    assumptions = ("feature values are strings or non-negative ints < 1000, one type per column, no NaN/None feature values",
                   "sample weights are positive", "metric functions are deterministic functions of their arguments")

    # ---------------------------------------------------------------- generation
    def _features(self, rng, n, k, names_pool):
        cols, names = [], rng.sample(names_pool, k)
        for _ in range(k):
            if rng.random() < 0.3:
                pool = rng.choice(INT_POOLS)
            else:
                pool = rng.choice(STR_POOLS)
            m = rng.choice([1, 2, 2, 3, 3, 4])
            vals = rng.sample(pool, m)
            cols.append([rng.choice(vals) for _ in range(n)])
        return cols, names

    def _metric_spec(self, rng, n, binary, allow_ns=True):
        tags = [t for t, d in mc.POOL.items() if (binary or not d["binary"])]
        if not allow_ns:
            tags = [t for t in tags if t != "cm"]
        weights = [1 if t == "cm" else 3 for t in tags]
        tag = rng.choices(tags, weights)[0]
        d = mc.POOL[tag]
        spec = {"tag": tag, "w": None, "ids": None, "a": None}
        if d["w"] and rng.random() < 0.6:
            spec["w"] = [str(rng.randint(1, 5)) for _ in range(n)] if rng.random() < 0.5 else [dy(rng) for _ in range(n)]
        if d["ids"]:
            spec["ids"] = [str(2 ** i) for i in range(n)]
        if d["a"]:
            spec["a"] = [str(rng.randint(-3, 7)) for _ in range(n)]
        return spec

    extended = False   # set by corpus_cases(): only the C01 run itself draws the multi-metric stream (C02/C12 reuse generate())

    def corpus_cases(self):
        self.extended = True
        return super().corpus_cases()

    def _multi_case(self, rng, base):
        """dict of 1..4 metrics with DIFFERENT sample params per metric (one of them without any), incl. the free-keyword
        metric kwsum, metric names that are prefixes of each other, and names whose columns would collide (F19 shapes)"""
        n = len(base["y"])
        k = rng.choice([1, 2, 2, 3, 3, 4, 4])
        names = rng.sample(["m0", "m1", "acc", "my metric", "a", "a_b", "a_b_c", "sample", "m0_ids", "None"], k)
        specs = []
        binary = all(v in (0, 1) for v in base["y"]) and all(v in (0, 1) for v in base["pred"])
        ids = [str(2 ** i) for i in range(min(n, 40))]
        for j in range(k):
            r = rng.random()
            if r < 0.35:
                kws = rng.sample(["w", "c", "b_c", "ids", "sample_weight", "weight", "b"], rng.choice([1, 1, 2, 3]))
                kw = {}
                for q in kws:
                    kw[q] = None if rng.random() < 0.1 else ([str(int(x) * rng.choice([1, 3, 5])) for x in ids] if rng.random() < 0.6
                                                              else [str(rng.randint(-3, 9)) for _ in range(n)])
                specs.append({"tag": "kwsum", "w": None, "ids": None, "a": None, "kw": kw})
            else:
                specs.append(self._metric_spec(rng, n, binary, allow_ns=False))
        if k >= 2 and all(spec_params(s_) for s_ in specs):
            j = rng.randrange(k)        # one metric with no sample parameters at all
            specs[j] = {"tag": "count", "w": None, "ids": None, "a": None}
        c = dict(base, bare=False, specs=specs, names=names)
        if rng.random() < 0.08 and n <= 40:   # colliding column names: "a"+"b_c" vs "a_b"+"c"
            c["names"] = ["a", "a_b"] + [x for x in names if x not in ("a", "a_b")][:k - 2] if k >= 2 else ["a"]
            c["specs"] = [{"tag": "kwsum", "w": None, "ids": None, "a": None, "kw": {"b_c": ids[:n]}},
                          {"tag": "kwsum", "w": None, "ids": None, "a": None, "kw": {"c": [str(3 * int(x)) for x in ids[:n]]}}] + specs[2:]
            c["specs"] = c["specs"][:len(c["names"])]
            c["names"] = c["names"][:len(c["specs"])]
            if rng.random() < 0.4:    # second shape of F19: the column of a parameter is "y_pred" / "y_true" itself
                c["names"] = ["y"] + [x for x in c["names"][1:] if x != "y"]
                c["specs"] = [{"tag": "kwsum", "w": None, "ids": None, "a": None,
                               "kw": {rng.choice(["pred", "true"]): [str(rng.randint(0, 1)) for _ in range(n)]}}] + \
                    [self._metric_spec(rng, n, binary, allow_ns=False) for _ in c["names"][1:]]
        return c

    def generate(self, rng, tier):
        base_gen = self._generate_base(rng, tier)
        while True:
            if self.extended and rng.random() < 0.12:
                yield self._names_case(rng)
                continue
            c = next(base_gen)
            if self.extended and rng.random() < 0.3 and len(c["y"]) <= 40:
                c = self._multi_case(rng, c)
            yield c

    def _names_spec(self, rng, n):
        c = rng.choice(["series", "series", "df", "df", "dict", "dict", "list", "ndarray", "ndarray", "list_nonscalar",
                        "ndarray3d", "dict_ragged"])
        if c == "series":
            names = [rng.choice([None, None, 5] + NAME_POOL)]
        elif c in ("df", "dict"):
            k = rng.choice([1, 2, 2, 3])
            names = [rng.choice(NAME_POOL + NAME_POOL + [0, 7]) for _ in range(k)] if c == "df" else \
                rng.sample(NAME_POOL + [0, 7], k)
        elif c == "dict_ragged":
            names = rng.sample(NAME_POOL[:5], 2)
        elif c in ("list",):
            names = [None]
        else:
            names = [None] * rng.choice([1, 2, 3])
        if c in ("ndarray3d", "dict_ragged") and n < 2:
            c, names = "list", [None]
        return {"c": c, "names": names}

    def _names_case(self, rng):
        n = rng.choice([1, 2, 3, 4])
        if rng.random() < 0.3:
            # near-duplicates across / within the containers: the same name (must be rejected) or a name that differs only
            # in case / by a trailing blank / from a default name by one character (must be accepted)
            x = rng.choice(["a", "grp", "Sex", "sensitive_feature_0", "control_feature_0", "y_pred", "m_w"])
            y = rng.choice([x, x.swapcase(), x + " ", x[:-1], x + "0"])
            pr = [["m", ["w"]]] if rng.random() < 0.5 else None
            if rng.random() < 0.5:
                return {"kind": "names", "n": n, "params": pr, "sf": {"c": "series", "names": [x]},
                        "cf": {"c": rng.choice(["series", "df", "dict"]), "names": [y]}}
            other = {"c": rng.choice(["list", "ndarray"]), "names": [None]}
            pair = {"c": rng.choice(["df", "dict"]) if x != y else "df", "names": [x, y]}
            return {"kind": "names", "n": n, "params": pr, "sf": pair if rng.random() < 0.5 else other,
                    "cf": other if rng.random() < 0.5 else pair}
        c = {"kind": "names", "n": n, "sf": self._names_spec(rng, n),
             "cf": self._names_spec(rng, n) if rng.random() < 0.6 else None}
        if rng.random() < 0.5:
            # sample parameters create data columns m_w, m_c_d, m_w_ ... which feature names must not reuse
            c["params"] = rng.choice([[["m", ["w"]]], [["m", ["w", "c_d"]]], [["m", ["w"]], ["m_w", [""]]], [["m_c", ["d"]], ["m", ["c_d"]]]])
        return c

    def _generate_base(self, rng, tier):
        while True:
            n = rng.choice([1, 1, 2, 2, 3, 3, 4, 5, 6, 7, 8, 10, 12, 16, 24, 40])
            nsf = rng.choice([1, 1, 1, 2, 2, 3])
            ncf = rng.choice([0, 0, 0, 1, 1, 2])
            sf, sfn = self._features(rng, n, nsf, SF_NAMES)
            cf, cfn = self._features(rng, n, ncf, CF_NAMES)
            binary = rng.random() < 0.6
            if binary:
                y = [rng.randint(0, 1) for _ in range(n)]
                pred = [rng.randint(0, 1) for _ in range(n)]
            else:
                y = [rng.randint(-2, 5) for _ in range(n)]
                pred = [str(F(rng.randint(-8, 16), rng.choice([1, 1, 2, 4]))) for _ in range(n)]
            bare = rng.random() < 0.4
            specs = [self._metric_spec(rng, n, binary, allow_ns=True) for _ in range(1 if bare else rng.choice([1, 2, 3]))]
            names = None if bare else rng.sample(["m0", "m1", "acc", "my metric"], len(specs))
            sfc = rng.choice(["list", "series", "series_noname", "ndarray", "dict", "df"]) if nsf == 1 else rng.choice(["dict", "df", "ndarray"])
            cfc = None if ncf == 0 else (rng.choice(["list", "series", "ndarray", "dict", "df"]) if ncf == 1 else rng.choice(["dict", "df", "ndarray"]))
            yield {"y": y, "pred": pred, "sf": sf, "sf_names": sfn, "sf_container": sfc,
                   "cf": cf, "cf_names": cfn, "cf_container": cfc, "bare": bare, "specs": specs, "names": names,
                   "ycontainer": rng.choice(["list", "ndarray", "series"]), "perm_index": rng.random() < 0.3,
                   "perm_seed": rng.randint(0, 10 ** 6)}

    def exhaustive(self, tier):
        def case(sf, cf, n):
            y = [(i * 7 + 1) % 3 for i in range(n)]
            pred = [str((i * 5 + 2) % 4) for i in range(n)]
            ids = [str(2 ** i) for i in range(n)]
            specs = [{"tag": "fprows", "w": None, "ids": ids, "a": None}, {"tag": "fpy", "w": None, "ids": ids, "a": None},
                     {"tag": "meanpred", "w": [str(1 + i % 2) for i in range(n)], "ids": None, "a": None}]
            return {"y": y, "pred": pred, "sf": sf, "sf_names": ["s0", "s1"][:len(sf)], "sf_container": "dict",
                    "cf": cf, "cf_names": ["c0"][:len(cf)], "cf_container": "dict" if cf else None, "bare": False,
                    "specs": specs, "names": ["m0", "m1", "acc"], "ycontainer": "list", "perm_index": False, "perm_seed": 0}
        cells = [(a, b) for a in "ab" for b in "xyz"]
        for n in range(1, 6):
            for asg in itertools.product(cells, repeat=n):
                yield case([[a for a, _ in asg], [b for _, b in asg]], [], n)
        for n in range(1, 6):
            for asg in itertools.product(cells, repeat=n):
                yield case([[b for _, b in asg]], [[a for a, _ in asg]], n)

    def shrink(self, case):
        if case.get("kind") == "names":
            if case["cf"] is not None:
                yield dict(case, cf=None)
            for which in ("sf", "cf"):
                sp = case[which]
                if sp and len(sp["names"]) > 1 and sp["c"] in ("df", "dict", "ndarray"):
                    for j in range(len(sp["names"])):
                        yield dict(case, **{which: dict(sp, names=sp["names"][:j] + sp["names"][j + 1:])})
            if case["n"] > 2:
                yield dict(case, n=case["n"] - 1)
            return
        n = len(case["y"])

        def drop_row(c, i):
            c = dict(c)
            c["y"] = c["y"][:i] + c["y"][i + 1:]
            c["pred"] = c["pred"][:i] + c["pred"][i + 1:]
            c["sf"] = [col[:i] + col[i + 1:] for col in c["sf"]]
            c["cf"] = [col[:i] + col[i + 1:] for col in c["cf"]]
            cut = (lambda v: v[:i] + v[i + 1:] if isinstance(v, list) else
                   ({a: cut(b) for a, b in v.items()} if isinstance(v, dict) else v))
            c["specs"] = [{k: cut(v) for k, v in s.items()} for s in c["specs"]]
            return c
        if len(case["specs"]) > 1:
            for j in range(len(case["specs"])):
                yield dict(case, specs=[case["specs"][j]], names=[case["names"][j]])
        if n > 1:
            for i in range(n):
                yield drop_row(case, i)
        if len(case["sf"]) > 1:
            for j in range(len(case["sf"])):
                yield dict(case, sf=case["sf"][:j] + case["sf"][j + 1:], sf_names=case["sf_names"][:j] + case["sf_names"][j + 1:],
                           sf_container="dict")
        if case["cf"]:
            for j in range(len(case["cf"])):
                rest = case["cf"][:j] + case["cf"][j + 1:]
                yield dict(case, cf=rest, cf_names=case["cf_names"][:j] + case["cf_names"][j + 1:],
                           cf_container="dict" if rest else None)
        if case["sf_container"] != "dict":
            yield dict(case, sf_container="dict")
        if case["cf_container"] not in (None, "dict"):
            yield dict(case, cf_container="dict")
        if case["perm_index"]:
            yield dict(case, perm_index=False)
        if case["ycontainer"] != "list":
            yield dict(case, ycontainer="list")
        for j, s in enumerate(case["specs"]):
            if s.get("w") is not None:
                yield dict(case, specs=case["specs"][:j] + [dict(s, w=None)] + case["specs"][j + 1:])

    # ---------------------------------------------------------------- implementation
    def _names(self, case):
        return ["metric"] if case["bare"] else list(case["names"])

    def build(self, case):
        """construct the real MetricFrame of a case (shared with C02)"""
        from fairlearn.metrics import MetricFrame
        n = len(case["y"])
        index = None
        if case["perm_index"]:
            index = list(np.random.RandomState(case["perm_seed"]).permutation(n) * 3 + 5)
        y = [float(v) if isinstance(v, str) else v for v in case["y"]]
        pred = [float(F(v)) if isinstance(v, str) else v for v in case["pred"]]
        if case["ycontainer"] == "ndarray":
            y, pred = np.array(y), np.array(pred)
        elif case["ycontainer"] == "series":
            y, pred = pd.Series(y, index=index), pd.Series(pred, index=index)
        sfa = mc.feature_arg(case["sf"], case["sf_names"], case["sf_container"], index)
        kw = {}
        if case["cf"]:
            kw["control_features"] = mc.feature_arg(case["cf"], case["cf_names"], case["cf_container"], index)
        if case["bare"]:
            metrics = pyfunc_for(case["specs"][0]["tag"])
            sp = sample_params_for(case["specs"][0], index)
        else:
            metrics = {nm: pyfunc_for(s["tag"]) for nm, s in zip(case["names"], case["specs"])}
            sp = {nm: sample_params_for(s, index) for nm, s in zip(case["names"], case["specs"])}
            if all(not v for v in sp.values()) and case["perm_seed"] % 2 == 0:
                sp = None
            elif case["perm_seed"] % 3 == 0:
                # a metric without sample parameters may simply have no entry in sample_params (`sample_params.get(name, {})`)
                sp = {k: v for k, v in sp.items() if v}
        return MetricFrame(metrics=metrics, y_true=y, y_pred=pred, sensitive_features=sfa, sample_params=sp, **kw)

    def impl_names(self, case):
        from fairlearn.metrics import MetricFrame, count
        n = case["n"]
        kw = {}
        if case["cf"] is not None:
            kw["control_features"] = names_container(case["cf"], n)
        metrics, sp = count, None
        if case.get("params"):
            metrics = {mname: kw_sum for mname, _ in case["params"]}
            sp = {mname: {pn: [1.0] * n for pn in pnames} for mname, pnames in case["params"]}
        try:
            mf = MetricFrame(metrics=metrics, y_true=[0] * n, y_pred=[1] * n,
                             sensitive_features=names_container(case["sf"], n), sample_params=sp, **kw)
        except ValueError:
            return {"names": "ValueError"}
        return {"names": "ok", "sensitive_levels": list(mf.sensitive_levels),
                "control_levels": None if mf.control_levels is None else list(mf.control_levels),
                "index_names": list(mf.by_group.index.names)}

    def impl(self, case):
        if case.get("kind") == "names":
            return self.impl_names(case)
        mf = self.build(case)
        ncf, nsf = len(case["cf"]), len(case["sf"])
        bg, ov = mf.by_group, mf.overall
        tname = (lambda v: "DataFrame" if isinstance(v, pd.DataFrame) else "Series" if isinstance(v, pd.Series) else "scalar")
        out = {"types": [tname(bg), tname(ov)], "sensitive_levels": list(mf.sensitive_levels),
               "control_levels": None if mf.control_levels is None else list(mf.control_levels),
               "index_names": [str(x) for x in bg.index.names], "metrics": {}}
        for j, nm in enumerate(self._names(case)):
            col = bg if case["bare"] else bg[nm]
            tab = mc.series_table(col, ncf + nsf)
            if ncf == 0:
                o = ov if case["bare"] else ov[nm]
                otab = [[[], mc.tok(o)]]
            else:
                o = ov if case["bare"] else ov[nm]
                otab = mc.series_table(o, ncf)
            out["metrics"][nm] = {"by_group": tab, "overall": otab}
        return out

    def _cols(self, case):
        return [[mc.enc_level(v) for v in col] for col in case["cf"] + case["sf"]]

    def lines(self, case, impl_out):
        if case.get("kind") == "names":
            return [f"fn.names {proto.strs(names_data_columns(case))} {names_token(case['sf'], case['n'])} "
                    f"{'absent' if case['cf'] is None else names_token(case['cf'], case['n'])}"]
        n = len(case["y"])
        # the driver op fm.eval does not check the lengths of the sample-parameter arrays (Model/FrameMulti.lean pads a short
        # column with 0 where real MetricFrame raises ValueError; C01.short_param_padded_artifact): never send such a line
        for s in case["specs"]:
            for pn, v in spec_params(s):
                if v is not None and len(v) != n:
                    raise ValueError(f"harness: sample parameter {pn!r} has {len(v)} values for {n} rows")
        if len(case["pred"]) != n or any(len(c) != n for c in case["cf"] + case["sf"]):
            raise ValueError("harness: column lengths of the case differ")
        ys, ps = proto.lst([F(v) for v in case["y"]]), proto.lst([F(v) for v in case["pred"]])
        cols = " ".join(proto.strs(c) for c in self._cols(case))
        ls = []
        for s in case["specs"]:
            tag, p0, p1 = p0p1_for(s, n)
            ls.append(f"frame.eval {tag} {len(case['cf'])} {ys} {ps} {proto.lst(p0)} {proto.lst(p1)} {cols}")
        # the whole dict at once through the multi-metric model (Model/FrameMulti.lean over Generated/FrameSrc.lean):
        # one shared all_data table, columns f"{name}_{param}", every metric reading its keyword arrays from it
        parts = []
        for nm, s in zip(self._names(case), case["specs"]):
            pr = spec_params(s)
            parts.append(" ".join([proto.s(nm), "none" if case["bare"] else proto.s(nm), s["tag"], str(len(pr))]
                                  + [f"{proto.s(pn)} {'none' if v is None else proto.lst([F(x) for x in v])}" for pn, v in pr]))
        ls.append(f"fm.eval {len(case['cf'])} {ys} {ps} {len(case['specs'])} {' '.join(parts)} {cols}")
        return ls

    # ---------------------------------------------------------------- oracle
    def oracle(self, case, spec):
        """first principles: (by_group dict key->value, overall dict ckey->value)"""
        n = len(case["y"])
        ncf = len(case["cf"])
        cols = self._cols(case)
        otag, p0, p1 = p0p1_for(spec, n)
        rows = [(F(case["y"][i]), F(case["pred"][i]), p0[i], p1[i]) for i in range(n)]
        keys = [tuple(c[i] for c in cols) for i in range(n)]
        levels = [sorted(set(c)) for c in cols]
        by, ov = {}, {}
        for k in itertools.product(*levels):
            sl = [rows[i] for i in range(n) if keys[i] == k]
            by[k] = mc.oracle_metric(otag, sl) if sl else mc.NAN
        for c in itertools.product(*levels[:ncf]):
            sl = [rows[i] for i in range(n) if keys[i][:ncf] == c]
            ov[c] = mc.oracle_metric(otag, sl) if sl else mc.NAN
        return by, ov

    def judge_names(self, case, o, mo):
        probs = []
        n = case["n"]
        if "crash" in o:
            probs.append(Problem("correspondence", f"MetricFrame raised something other than ValueError: {o}", "C01.names_error_kind"))
            o = {"names": "ValueError"}
        want_s = names_oracle("sensitive_feature_", case["sf"], n)
        want_c = None if case["cf"] is None else names_oracle("control_feature_", case["cf"], n)
        if want_s == "reject" or want_c == "reject":
            want = "reject"
        else:
            allnames = want_s + (want_c or [])
            reserved = set(names_data_columns(case))     # a feature must not be called like a data column (F19)
            want = "reject" if (len(set(allnames)) != len(allnames) or reserved & set(allnames)) else (want_s, want_c)
        if want == "reject":
            if o["names"] != "ValueError":
                probs.append(Problem("property", f"feature containers must be rejected (non-string / duplicate names, bad shape) "
                                     f"but names {o.get('sensitive_levels')}/{o.get('control_levels')} were produced", "C01.names_rejected"))
        else:
            if o["names"] != "ok":
                probs.append(Problem("property", f"valid feature containers rejected; expected names {want}", "C01.names_accepted"))
            else:
                got = o["sensitive_levels"] + (o["control_levels"] or [])
                if not all(isinstance(x, str) for x in got) or len(set(got)) != len(got):
                    probs.append(Problem("property", f"feature names {got} are not pairwise distinct strings", "C01.names_nodup"))
                if (o["sensitive_levels"], o["control_levels"]) != want:
                    probs.append(Problem("property", f"feature names {o['sensitive_levels']}/{o['control_levels']}, expected {want}",
                                         "C01.names_accepted"))
                elif o["index_names"] != (want[1] or []) + want[0]:
                    probs.append(Problem("correspondence", f"by_group index names {o['index_names']}", "C01.control_first"))
        if mo is not None:
            m = mo[0]
            if want == "reject":
                ok = m.startswith("err:")
            else:
                t = m.split(" ")
                ok = len(t) == 2 and proto.p_strs(t[0]) == want[0] and \
                    ((t[1] == "none" and want[1] is None) or (t[1] != "none" and want[1] is not None and proto.p_strs(t[1]) == want[1]))
            if not ok:
                if featurenamessrc_changed():
                    probs.append(Problem("correspondence", "the names model built from the lifted base names / default-name "
                                         f"format departs from the first-principles oracle (sources changed): model {m} vs oracle {want}",
                                         "C01.generated-source-vs-oracle"))
                else:
                    probs.append(Problem("harness", f"names model {m} vs oracle {want}"))
        return probs

    def judge(self, case, o, mo):
        if case.get("kind") == "names":
            return self.judge_names(case, o, mo)
        if "crash" in o:
            return [Problem("property", f"MetricFrame construction failed on a valid input: {o}", "C01.accepts")]
        probs = []
        ncf, nsf = len(case["cf"]), len(case["sf"])
        # feature names / result types (glue; correspondence relations)
        want_sf = mc.expected_names("sensitive_feature_", case["sf_names"], case["sf_container"], nsf)
        want_cf = None if ncf == 0 else mc.expected_names("control_feature_", case["cf_names"], case["cf_container"], ncf)
        if o["sensitive_levels"] != want_sf or o["control_levels"] != want_cf:
            probs.append(Problem("correspondence", f"level names {o['sensitive_levels']}/{o['control_levels']} expected {want_sf}/{want_cf}", "C01.level_names"))
        elif o["index_names"] != (want_cf or []) + want_sf:
            probs.append(Problem("correspondence", f"by_group index names {o['index_names']}: control columns must come first", "C01.control_first"))
        if tuple(o["types"]) != EXPECTED_TYPES[(case["bare"], ncf > 0)]:
            probs.append(Problem("correspondence", f"result types {o['types']}", "C01.result_types"))
        for j, (nm, spec) in enumerate(zip(self._names(case), case["specs"])):
            by, ov = self.oracle(case, spec)
            got = o["metrics"][nm]
            for label, tab, want in (("by_group", got["by_group"], by), ("overall", got["overall"], ov)):
                gkeys = [tuple(k) for k, _ in tab]
                if len(set(gkeys)) != len(gkeys):
                    probs.append(Problem("property", f"{nm}.{label}: duplicate index entries {gkeys}", "C01.byGroup_index_nodup"))
                if set(gkeys) != set(want.keys()):
                    miss = sorted(set(want) - set(gkeys))
                    extra = sorted(set(gkeys) - set(want))
                    probs.append(Problem("property", f"{nm}.{label}: index is not the product of observed values: missing {miss[:4]} extra {extra[:4]}", "C01.byGroup_index"))
                elif gkeys != sorted(want.keys()):
                    probs.append(Problem("correspondence", f"{nm}.{label}: index order {gkeys[:6]}", "C01.byGroup_index_sorted"))
                for k, v in tab:
                    w = want.get(tuple(k))
                    if w is None:
                        continue
                    if not mc.same(v, w, TOL):
                        rel = "C01.byGroup_empty" if (w == mc.NAN or v == mc.NAN) else ("C01.byGroup_cell" if label == "by_group" else "C01.overall_eq")
                        probs.append(Problem("property", f"{nm}.{label}[{k}] = {v}, metric on exactly those rows = {w}", rel))
            if mo is not None:
                t = mo[j].split(" ")
                if len(t) != 4:
                    probs.append(Problem("harness", f"driver output {mo[j]!r}"))
                    continue
                mby = dict(zip([tuple(k) for k in mc.parse_keys(t[0])], mc.parse_cells(t[1])))
                mov = dict(zip([tuple(k) for k in mc.parse_keys(t[2])], mc.parse_cells(t[3])))
                if ncf == 0:
                    mov = {(): v for v in mov.values()}
                if mby != by or mov != ov or [tuple(k) for k in mc.parse_keys(t[0])] != sorted(by.keys()):
                    probs.append(Problem("harness", f"{nm}: model {mo[j][:200]} vs oracle {by} {ov}"))
                # impl vs model (correspondence), only reported if the oracle did not already fail
                if not any(p.kind == "property" for p in probs):
                    for label, tab, mt in (("by_group", got["by_group"], mby), ("overall", got["overall"], mov)):
                        if [tuple(k) for k, _ in tab] != list(mt.keys()) or any(not mc.same(v, mt[tuple(k)], TOL) for k, v in tab):
                            probs.append(Problem("correspondence", f"{nm}.{label}: impl {tab[:6]} vs model {list(mt.items())[:6]}", "C01.model"))
        if mo is not None and len(mo) > len(case["specs"]):
            probs.extend(self.judge_multi(case, o, mo[len(case["specs"])], any(p.kind == "property" for p in probs)))
        return probs

    def judge_multi(self, case, o, line, oracle_failed):
        """the dict of metrics evaluated at once by Model/FrameMulti.lean (shared all_data table, generated column names,
        generated AnnotatedMetricFunction.__call__ / apply_to_dataframe / create): every column must equal the single-metric
        oracle of that function with exactly its own sample params (C01.multi_column_eq_single), whatever the metric and
        parameter names are (colliding f"{name}_{param}" names are made unique by the constructor: repair of F19)."""
        probs = []
        t = line.split(" ")
        names = self._names(case)
        if line == "bad-op" or len(t) != 4 + 3 * len(names):
            return [Problem("harness", f"fm.eval output {line[:200]!r}")]
        mtypes = (t[-2], t[-1])
        if mtypes != EXPECTED_TYPES[(case["bare"], len(case["cf"]) > 0)]:
            msg = f"accessor types of the model {mtypes} vs the documented table"
            probs.append(Problem("correspondence", "the translated _extract_result departs from the documented result types "
                                 "(sources changed): " + msg, "C01.generated-source-vs-oracle") if framesrc_changed()
                         else Problem("harness", msg))
        if tuple(o["types"]) != mtypes:
            probs.append(Problem("correspondence", f"result types {o['types']} vs model {mtypes}", "C01.result_types"))
        bkeys = [tuple(k) for k in mc.parse_keys(t[0])]
        okeys = [tuple(k) for k in mc.parse_keys(t[1])]
        if len(case["cf"]) == 0:
            okeys = [()]
        for j, (nm, spec) in enumerate(zip(names, case["specs"])):
            if proto.p_s(t[2 + 3 * j]) != nm:
                probs.append(Problem("harness", f"fm.eval column order: {t[2 + 3 * j]} for {nm}"))
                continue
            cells = lambda tok: ["missing" if c == "missing" else mc.model_tok(c) for c in tok.split(",")]  # noqa: E731
            mby = dict(zip(bkeys, cells(t[3 + 3 * j])))
            mov = dict(zip(okeys, cells(t[4 + 3 * j])))
            by, ov = self.oracle(case, spec)
            if mby != by or mov != ov:
                msg = f"{nm}: multi-metric model {dict(list(mby.items())[:4])} / {mov} vs oracle {dict(list(by.items())[:4])} / {ov}"
                if framesrc_changed():
                    probs.append(Problem("correspondence", "the translated source departs from the first-principles oracle "
                                         "(MetricFrame sources changed): " + msg, "C01.generated-source-vs-oracle"))
                else:
                    probs.append(Problem("harness", msg))
            if not oracle_failed:
                got = o["metrics"][nm]
                for label, tab, mt in (("by_group", got["by_group"], mby), ("overall", got["overall"], mov)):
                    if [tuple(k) for k, _ in tab] != list(mt.keys()) or any(not mc.same(v, mt[tuple(k)], TOL) for k, v in tab):
                        probs.append(Problem("correspondence", f"{nm}.{label}: impl {tab[:6]} vs multi-metric model "
                                             f"{list(mt.items())[:6]}", "C01.multi_model"))
        return probs

    def known(self, case, problem, entries):
        if case.get("kind") == "names":
            return None
        """F9: a 1-row dataset whose features come as a numpy array is rejected (np.squeeze drops the only axis).
        Exactly that shape: one row, an ndarray feature container, the constructor raising ValueError."""
        if problem.relation == "C01.accepts" and len(case["y"]) == 1 and "ValueError" in problem.msg \
                and "ndarray" in (case["sf_container"], case["cf_container"]):
            for e in entries:
                if e["id"] == "F9":
                    return e
        return None

    def signature(self, case, o):
        if case.get("kind") == "names":
            tags = ["names", "names:sf=" + case["sf"]["c"], "names:cf=" + (case["cf"]["c"] if case["cf"] else "absent"),
                    "names:" + str(o.get("names", "crash")), "names:params" if case.get("params") else "names:no_params"]
            allf = [x for sp_ in (case["sf"], case["cf"]) if sp_ for x in sp_["names"] if isinstance(x, str)]
            if set(allf) & set(names_data_columns(case)):
                tags.append("names:feature_named_like_data_column")
            return ("names", json.dumps(case, sort_keys=True)), True, tags
        n = len(case["y"])
        ncf, nsf = len(case["cf"]), len(case["sf"])
        cols = self._cols(case)
        keys = set(tuple(c[i] for c in cols) for i in range(n))
        total = 1
        for c in cols:
            total *= len(set(c))
        sizes = {}
        for i in range(n):
            k = tuple(c[i] for c in cols)
            sizes[k] = sizes.get(k, 0) + 1
        tags = [f"n={'1' if n == 1 else '2-4' if n <= 4 else '5-12' if n <= 12 else '13-40'}", f"nsf={nsf}", f"ncf={ncf}",
                "bare" if case["bare"] else f"dict{len(case['specs'])}", f"sf={case['sf_container']}",
                f"cf={case['cf_container']}", f"y={case['ycontainer']}"]
        if total > len(keys):
            tags.append("empty_intersection")
        if 1 in sizes.values():
            tags.append("single_member_group")
        if len(keys) == 1:
            tags.append("single_group")
        if case["perm_index"]:
            tags.append("permuted_index")
        if any(isinstance(v, int) for c in case["sf"] + case["cf"] for v in c):
            tags.append("int_feature")
        for s in case["specs"]:
            tags.append("metric=" + s["tag"])
            tags.append("params=" + str(sum(v is not None for _, v in spec_params(s))))
        if not case["bare"] and len(case["specs"]) >= 2:
            pc = [sum(v is not None for _, v in spec_params(s)) for s in case["specs"]]
            if 0 in pc and max(pc) > 0:
                tags.append("multi:one_metric_without_params")
            if len({tuple(pn for pn, v in spec_params(s) if v is not None) for s in case["specs"]}) > 1:
                tags.append("multi:different_params_per_metric")
        if columns_collide(case):
            tags.append("multi:column_names_collide(F19 shape)")
        if "crash" in o:
            tags.append("crash=" + str(o.get("crash")))
        key = (tuple(map(tuple, cols)), tuple(case["y"]), tuple(case["pred"]),
               tuple((s["tag"], tuple(s["w"] or ()), tuple(s["a"] or ()), json.dumps(s.get("kw"), sort_keys=True)) for s in case["specs"]),
               case["bare"], tuple(case["names"] or ()))
        return key, n >= 2, tags
