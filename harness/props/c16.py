"""C16 — adversarial training applies the documented projected-gradient update.

One case = a data pool (X, y, sensitive feature), a predictor / adversary architecture, alpha, plain-SGD
learning rates and one or two measured batches.  The real `AdversarialFairnessClassifier/Regressor` (PyTorch
engine, public constructor parameters only) performs the step through `partial_fit`; the harness computes
dLP/dW, dLA/dW, dLA/dU with `torch.autograd.grad` on a deep copy taken BEFORE the call, reads the parameters
before/after, converts every float32 exactly to a rational and
  * oracle (Fractions, first principles): (W_before - W_after)/lr  =  a - (<b,a>/<b,b>) b - alpha b  (b != 0; g = a for b = 0),
    <g + alpha b, b> = 0, adversary (U_before - U_after)/lr = dLA/dU;
  * Lean model: `adv.step torch ...` (the loop body as lifted from the source), `adv.grad ref ...`, `adv.sgd ...`.
"""
import copy
import math
from fractions import Fraction as F

from .. import proto
from ..core import Check, Problem, register

ACTS = ("none", "sigmoid", "tanh", "leaky_relu", "relu")
ALPHAS = ("0", "3/10", "1", "5/2")


def step_alpha(case, si):
    """alpha in force during measured step `si`: `alphas` (set on the estimator before that step, the documented way of
    scheduling alpha — examples/plot_adversarial_fine_tuning.py, set_params) or the constructor's `alpha`"""
    al = case.get("alphas") or []
    return al[si] if si < len(al) else case["alpha"]
LRS = ("1/2", "1/4", "1/8", "1/16", "1/10")
# Tolerances (review R2, measured on the unchanged tree, VERIF_SEED 0..2, 1500 cases = 6782 predictor / 6858 adversary
# tensors + 2432 tensors of whole fits): the largest relative part any tensor needed on top of 4 ulp(W)/lr was 1.66e-7 of
# |dLP/dW| + alpha*|dLA/dW| (update rule) and 1.59e-7 (orthogonality residual); adversary tensors never needed more than
# 0.97 * (ulp(U)/lr + 2^-24*|dLA/dU|); whole fits never more than 0.94 * sum_steps(2^-24*lr*scale + 2^-24*|W|).
# REL = 5e-6 is 30x the largest observed relative deviation (was 2e-4 = 1200x).
REL = 5e-6          # relative tolerance (float32 arithmetic of the engine: ~84 unit roundoffs)
# float32's squared-underflow range: below about 1e-19 the squares of the entries leave the normal range, torch.norm loses
# precision and from ~1e-23 returns 0; then `tiny` dominates the normalisation and the update of the real code is off by
# ~1/tiny (known finding F22, corpus/C16/f22-adversary-gradient-underflow.json).  Tensors whose largest entry is
# below UNDERFLOW (but not all zero) are NOT judged (tagged); 1e-18 keeps the largest square 85x above the smallest normal.
UNDERFLOW = 1e-18   # was 1e-15
# F22 (known finding): the EXACT float32 criterion for `torch.norm(t) == 0` on a non-zero tensor.  torch accumulates the
# squares in float32; x*x rounds to 0 iff x^2 <= 2^-150 (half the smallest subnormal 2^-149, ties to even), i.e. iff
# |x| <= 2^-75 = 2.6469779601696886e-23.  Measured with torch 2.14 on this machine: norm([2^-75]*k) == 0.0 for k = 1, 8, 100 and
# a 2x2 matrix; norm([nextafter(2^-75, 1)]) = 3.7e-23 > 0.  Then `unit = dW_LA / (0 + tiny)` and the update is off by ~1/tiny.
# Tensors of THIS shape are judged (the failure is matched by `known`); tensors in the gradual-underflow band above it
# (2^-75 < max|entry| < UNDERFLOW: the norm is positive but inaccurate) stay not judged, as before.
F22_MAX = F(1, 2 ** 75)


def f22_shape(b):
    """b: the exact values (Fractions) of one float32 dLA/dW tensor: non-zero, but its float32 sum of squares is exactly 0"""
    return any(x != 0 for x in b) and max(abs(x) for x in b) <= F22_MAX


# sha256 of the definitions (comments / blank lines stripped) of the two generated files the whole-step model is built
# from, as lifted from the pinned tree.  While both match, a disagreement between `advstep.fit` and the Fraction oracle
# is a bug of this machinery (exit 2); after a source edit that changed a lifted file it is a broken tie (exit 1).
PINNED_GEN_SHA256 = {"AdvProjection.lean": "d4c223310a99b7f89c8f7e61bdbc4aa5428e8b55a4a14c531a475991efee5835", "AdvScheduleSrc.lean": "2a6782c3963fb6a11e55dd01c69785874c9377aa8b68efd6fe5be320e2bc5775",
                     "AdvTrainStepSrc.lean": "0819dc7e8951df08092950eab5f792764a12a1109c6251bdac905d3a44bff2bc"}
# what `trainstep.applied` must print: buffers consistent, predictor applies combine(dLP/dW, dLA/dW), adversary applies dLA/dU
WANT_APPLIED = "1 combine(1,0,0;0,1,0) 0,1,0"
_GEN_STATE = {}


def gen_fingerprint(name):
    import hashlib
    import os
    from .. import leanrun
    with open(os.path.join(leanrun.LEAN, "FairModel", "Generated", name)) as f:
        txt = leanrun.strip_comments(f.read())
    body = "\n".join(ln.rstrip() for ln in txt.splitlines() if ln.strip())
    return hashlib.sha256(body.encode()).hexdigest()


def gen_changed():
    if "v" not in _GEN_STATE:
        try:
            _GEN_STATE["v"] = any(gen_fingerprint(k) != v for k, v in PINNED_GEN_SHA256.items())
        except OSError:
            _GEN_STATE["v"] = False
    return _GEN_STATE["v"]


def model_problem(msg):
    if gen_changed():
        return Problem("correspondence", "the whole-step model built from the LIFTED loop body / schedule departs from the "
                       "documented update: " + msg, "C16.whole_step_sgd")
    return Problem("harness", msg)


def norm_diagnosis(obs, a, b, alpha, shape):
    """DIAGNOSTIC only (text appended to a violation message): which norm of dLA/dW would explain the observed update
    obs = a - c*b - alpha*b ?  The implied squared norm is <b,a>/c with c = <a - obs - alpha*b, b>/<b,b>."""
    try:
        bb = sum(y * y for y in b)
        ba = sum(x * y for x, y in zip(a, b))
        c = sum((x - o - alpha * y) * y for x, o, y in zip(a, obs, b)) / bb
        if ba == 0 or c == 0:
            return ""
        implied = float(ba / c)
        cands = {"the L1 norm of the flattened tensor (sum of |entries|)": float(sum(abs(y) for y in b)) ** 2,
                 "the max-abs norm (largest |entry|)": float(max(abs(y) for y in b)) ** 2}
        r, cc = shape
        if r >= 2 and cc >= 2:
            import numpy as np
            M = np.array([[float(y) for y in b[i * cc:(i + 1) * cc]] for i in range(r)])
            sv = np.linalg.svd(M, compute_uv=False)
            cands["the SPECTRAL norm (largest singular value: torch.linalg.norm(g, 2) / matrix_norm(g, 2))"] = float(sv[0]) ** 2
            cands["the nuclear norm (sum of the singular values)"] = float(sv.sum()) ** 2
            cands["the matrix 1-norm (largest column sum)"] = float(np.abs(M).sum(axis=0).max()) ** 2
            cands["the matrix inf-norm (largest row sum)"] = float(np.abs(M).sum(axis=1).max()) ** 2
        for name, v in cands.items():
            if abs(v - float(bb)) > 1e-3 * float(bb) and abs(v - implied) <= 1e-3 * abs(implied):
                return (f" (the applied update is the one that normalises dLA/dW with {name}: implied |dLA/dW|^2 = {implied:.6g}, "
                        f"2-norm squared = {float(bb):.6g})")
    except (ZeroDivisionError, ValueError, OverflowError):
        pass
    return ""


def planned_steps(n, bs, ep, mi):
    """closed form of the documented schedule without callbacks (None = rejected)"""
    if ep == -1 and mi == -1:
        return None
    b = n if bs == -1 else bs
    batches = -(-n // b)
    epochs = -(-mi // batches) if ep == -1 else ep
    total = epochs * batches
    return total if mi == -1 else min(total, mi)


# ------------------------------------------------------------------------------------------- data helpers
def _labels(kind, style, idx):
    """class index / value -> the label handed to fairlearn"""
    if kind == "continuous":
        return [float(F(v)) for v in idx]
    if style == "str":
        return ["c" + "abcdef"[i] for i in idx]
    return [3 + 2 * i for i in idx]          # ints that are not 0/1


def _encode(kind, vals, pool_vals):
    """documented float encoding: binary -> indicator of the larger class, multiclass -> one-hot over the sorted
    classes of the first call, continuous -> the value itself (one column)"""
    if kind == "continuous":
        return [[float(F(v))] for v in vals]
    classes = sorted(set(pool_vals))
    if len(classes) == 2:
        return [[1.0 if v == classes[1] else 0.0] for v in vals]
    return [[1.0 if v == c else 0.0 for c in classes] for v in vals]


def _target_type(kind, vals):
    """sklearn.utils.multiclass.type_of_target on the values of one batch"""
    if kind == "continuous":
        return "continuous" if any(F(v).denominator != 1 for v in vals) else "discrete"
    return "binary" if len(set(vals)) <= 2 else "multiclass"


def batch_ok(case, rows):
    """a batch must look like the pool to the transformers (same type_of_target), else fairlearn rejects it"""
    for kind, vals in ((case["ykind"], case["y"]), (case["skind"], case["sf"])):
        sub = [vals[i] for i in rows]
        if _target_type(kind, sub) != _target_type(kind, vals):
            return False
    return len(rows) >= 1


def valid(case):
    n = len(case["X"])
    if n < 2 or any(len(r) != case["d"] for r in case["X"]) or case["d"] < 1:
        return False
    if len(case["y"]) != n or len(case["sf"]) != n:
        return False
    for kind, vals in ((case["ykind"], case["y"]), (case["skind"], case["sf"])):
        t = _target_type(kind, vals)
        if kind == "continuous" and t != "continuous":
            return False
        if kind == "binary" and (t != "binary" or len(set(vals)) != 2):
            return False
        if kind == "multiclass" and t != "multiclass":
            return False
    if not case["steps"] or not all(batch_ok(case, s) and all(0 <= i < n for i in s) for s in case["steps"]):
        return False
    if case["mode"] == "list" and (case["opt"] == "instance" or not case["warm"]):
        return False
    if case["opt"] == "string" and case["lr_a"] != case["lr_p"]:
        return False
    return True


def n_out(kind, vals):
    if kind == "continuous":
        return 1
    k = len(set(vals))
    return 1 if k == 2 else k


# ------------------------------------------------------------------------------------------- torch helpers
def _act(name):
    import torch
    return {"sigmoid": torch.nn.Sigmoid, "tanh": torch.nn.Tanh, "leaky_relu": torch.nn.LeakyReLU,
            "relu": torch.nn.ReLU}[name]()


def _list_model(hidden):
    """the list form of the public API: ints, keyword strings, callables"""
    out = []
    for w, a in hidden:
        out.append(int(w))
        if a == "tanh":
            out.append(_act("tanh"))          # callable item
        elif a != "none":
            out.append(a)                      # keyword item
    return out


def _module(hidden, n_in, n_outputs, final, seed):
    import torch
    g = torch.Generator().manual_seed(int(seed))
    layers, prev = [], n_in
    for w, a in hidden:
        layers.append(torch.nn.Linear(prev, int(w)))
        if a != "none":
            layers.append(_act(a))
        prev = int(w)
    layers.append(torch.nn.Linear(prev, n_outputs))
    if final == "binary":
        layers.append(torch.nn.Sigmoid())
    m = torch.nn.Sequential(*layers)
    with torch.no_grad():
        for p in m.parameters():
            p.copy_((torch.randint(-16, 17, p.shape, generator=g).float() / 16.0))
    return m


def _fr(t):
    out = []
    for v in t.detach().reshape(-1).tolist():
        out.append("nan" if (math.isnan(v) or math.isinf(v)) else proto.rat(float(v)))
    return out


def _shape2(t):
    s = list(t.shape)
    return [1, s[0]] if len(s) == 1 else [s[0], int(math.prod(s[1:]))]


@register
class CHECK(Check):
    pid = "C16"
    technique = ("Lean 4 theorems over the Adversarial model (projection algebra on tensors of any shape, tied to the "
                 "source by translator lifters: loop body incl. the NORM KIND that normalises dLA/dW (adv_projection.py) and statement structure of train_step with pinned call arguments "
                 "(adv_trainstep.py)) + the whole step / whole fit as a pure function (Model/AdvStep.lean) + correspondence of real "
                 "PyTorch training steps and whole fits with the compiled model")
    level_text = ("Theorems (all tensor shapes and sizes, all alpha): g + alpha*dLA/dW is orthogonal to dLA/dW; the matrix "
                  "Frobenius product is the dot of the flattenings; the literal three-line loop body of both engines (lifted "
                  "from the Python source: inner-product kind, tiny kind, coordinate arithmetic) equals the normalised model; "
                  "sum-of-row-pair inner products coincide with Frobenius only for single rows (2x2 counter-witness); the norm kind is lifted "
                  "(frobenius / l1Flat / maxAbs; spectral, nuclear, per-axis refused) and the model computes with it: orthogonality and "
                  "'the coefficient is the projection coefficient' each hold iff the lifted norm is the 2-norm of the flattening "
                  "(`orthogonal_iff_two_norm`, `lifted_norm_is_frobenius`); plain "
                  "SGD observation recovers the applied gradient; branch taken when dLA/dW = 0. Tie: real torch models trained "
                  "through partial_fit with plain SGD vs the compiled Lean model and an exact Fraction oracle on the same "
                  "autograd gradients (rel. 5e-6). TensorFlow engine: lifted structurally only, NOT exercised (not installed). "
                  "Whole step (all tensors of both players, optimisers as parameters): every optimiser is handed the engine's rule / "
                  "dLA/dU (`whole_step_feeds_optimisers`), with SGD the parameters move along -lr*g and -lr*dLA/dU (`whole_step_sgd`), "
                  "the lifted PyTorch step is total and has the documented direction per tensor; statement structure of train_step "
                  "(zero_grad / backward / copies / loop / optimiser steps, data-flow dependencies of LP and LA) interpreted on symbolic "
                  ".grad buffers: copies are exactly dLP/dW and dLA/dW and the adversary applies exactly dLA/dU whatever the buffers held "
                  "before (`lifted_train_step_gradients`). Tie: whole `fit` runs on user modules with gradients recorded by tensor hooks "
                  "vs the fold of the model's step over the LIFTED schedule (`advstep.fit`).")
    design_ref = "DESIGN.md section 4, C16"
    quick_cases = 2400
    thorough_cases = 20000
    workers_thorough = 4
    quick_budget_s = 110
    thorough_budget_s = 1100
    rule = ("pool of 3..16 rows, 1..6 dyadic features; y and sensitive feature each binary / multiclass(3-4) / continuous "
            "with int or str labels, given as ndarray / list / pandas; predictor and adversary with 0..2 hidden layers of "
            "width 1..6 and activation none/sigmoid/tanh/leaky_relu/relu, given as list (ints, keywords, callables) or as "
            "torch.nn.Module; demographic_parity / equalized_odds; alpha in {0, 0.3, 1, 2.5}; plain torch.optim.SGD for both "
            "players given as constructor callable / 'SGD' keyword / instance, lr in {1/2,1/4,1/8,1/16,1/10}; 1-2 measured "
            "batches of 1..16 pool rows after an optional warm-up step; every batch has the pool's type_of_target (else "
            "fairlearn rejects it). distinct = distinct case; non-trivial = some predictor tensor has dLA/dW != 0. "
            "Gradient tensors with 2^-75 < max |entry| < 1e-18 (float32 gradual-underflow band: torch.norm inaccurate) are not judged "
            "(tagged); non-zero tensors with every |entry| <= 2^-75 (torch.norm exactly 0: known finding F22) ARE judged but only "
            "the corpus case produces them. "
            "Not stated before (review R2): features are k/4 with |k| <= 8; continuous targets k/4 with |k| <= 12 and at least one "
            "non-integer; module-mode parameters are initialised to k/16 with |k| <= 16; list-mode models ALWAYS get a warm-up step "
            "(their modules exist only after the first call) and never an optimiser instance; the 'SGD' keyword forces lr_a = lr_p; "
            "without warm-up the first measured batch is the whole pool (the first call must see every class); optional "
            "`adv_scale` (corpus only) multiplies the adversary module's parameters. "
            "kind=fit (22% of the cases): whole fit(shuffle=False) on user-supplied torch modules (0-1 hidden layers) with plain SGD "
            "(lr 1/8, 1/10, 1/16), n in 4..12, batch_size in {-1, 1..n+1}, epochs in {-1,1,2,3}, max_iter in {-1,1..6}, at most 6 "
            "steps; gradients of every backward pass recorded by tensor hooks.")
    explanation = ("theorems over the Lean model Adversarial (all shapes); correspondence: parameters after partial_fit vs "
                   "`adv.step torch` / `adv.sgd` of the compiled driver on exactly converted float32 gradients, rel 5e-6 (+ 4 ulp(W)/lr); "
                   "`adv.step torch` is also compared EXACTLY with the Fraction oracle (model != oracle: HARNESS-ERROR while the generated "
                   "files have the pinned content, broken tie afterwards); "
                   "oracle: Fractions. The TensorFlow engine is covered only by the translator's structural lift of its "
                   "projection expression (reduce_sum(multiply(.,.)) -> frobenius, finfo(float32).tiny); it is not executed. "
                   "kind=fit: parameters after fit vs `advstep.fit` (fold of the whole-step model over the schedule interpreted from the "
                   "lifted source, on the hook-recorded gradients) and vs the same fold in Fractions; number of backward passes vs the "
                   "documented number of steps; `trainstep.applied` (symbolic bookkeeping of the lifted train_step) vs the documented "
                   "`combine(dLP/dW, dLA/dW)` / `dLA/dU`.")
    trusted = ("torch.autograd gradients (inputs of the model) and torch.optim.SGD (modelled as W - lr*g)",
               "the engine's loss objects (BCELoss / CrossEntropyLoss / MSELoss, read from backendEngine_) define LP and LA",
               "the float encoding of y / sensitive features (indicator of the larger class, one-hot over sorted classes) is "
               "recomputed by the harness from the documented rule",
               "TensorFlow engine not executed (tensorflow/keras are not installed): structural lift only",
               "torch tensor hooks deliver, per backward pass, the gradient of that pass for every parameter (kind=fit)",
               "harness/lifters/adv_trainstep.py: statement roles of train_step by shape (zero_grad / backward / list-comprehension "
               "copies / loop / step) and autograd dependencies by data flow (`.detach()` cuts); PyTorch accumulates into .grad; "
               "the whitelisted call arguments (zero_grad(set_to_none=..), train(mode=..), backward(retain_graph=..)) do not change any "
               "gradient value (reasons in the lifter's doc comment); `backward` without retain_graph frees the graph it walked",
               "harness/lifters/adv_projection.py: which torch / tensorflow norm functions compute the 2-norm / 1-norm / max-norm of the "
               "FLATTENED tensor when called without dim/axis (table in `classify_norm`)")
    assumptions = ("plain SGD optimisers (no momentum / weight decay)", "float32 models on CPU, one thread",
                   "batches have the same type_of_target as the first call's data",
                   "gradient tensors are not in float32's gradual-underflow band (2^-75 < max|entry| < 1e-18), else not judged; "
                   "the exact-zero-norm shape (every |entry| <= 2^-75, not all 0) is judged and is known finding F22")

    # ------------------------------------------------------------------------------------------ generation
    def _hidden(self, rng, tier, bias_multi):
        k = rng.choice([0, 1, 1, 2, 2])
        out = []
        for _ in range(k):
            w = rng.choice([2, 3, 4, 5, 6]) if (bias_multi and rng.random() < 0.8) else rng.randint(1, 6)
            out.append([w, rng.choice(["none", "sigmoid", "tanh", "leaky_relu", "sigmoid", "tanh", "relu", "relu"])])
        return out

    def _values(self, rng, kind, n):
        if kind == "binary":
            v = [0, 1] + [rng.randint(0, 1) for _ in range(n - 2)]
        elif kind == "multiclass":
            k = rng.choice([3, 3, 4])
            v = list(range(k)) + [rng.randrange(k) for _ in range(n - k)]
        else:
            v = [str(F(rng.randint(-8, 8) * 2 + 1, 4))] + [str(F(rng.randint(-12, 12), 4)) for _ in range(n - 1)]
        rng.shuffle(v)
        return v

    def _fit_case(self, rng):
        """whole `fit` on user-supplied torch modules with plain SGD: gradients of every step are recorded by tensor
        hooks on the real autograd, the final parameters are compared with the fold of the model's step"""
        d = rng.choice([1, 2, 3])
        n = rng.randint(4, 12)          # `_values` needs n >= number of classes (<= 4)
        ykind = rng.choice(["binary", "binary", "multiclass", "continuous"])
        skind = rng.choice(["binary", "binary", "multiclass", "continuous"])
        bs = rng.choice([-1, rng.randint(1, n), rng.randint(1, n), n + 1])
        b = n if bs == -1 else bs
        batches = -(-n // b)
        ep = rng.choice([1, 1, 2, 3, -1])
        mi = rng.choice([-1, -1, rng.randint(1, 6)])
        if ep == -1 and mi == -1:
            mi = rng.randint(1, 6)
        while planned_steps(n, bs, ep, mi) > 6:
            if ep > 1:
                ep -= 1
            else:
                mi = 6
        return {"kind": "fit", "d": d, "X": [[str(F(rng.randint(-8, 8), 4)) for _ in range(d)] for _ in range(n)],
                "ykind": ykind, "ystyle": rng.choice(["int", "str"]), "y": self._values(rng, ykind, n),
                "skind": skind, "sstyle": rng.choice(["int", "str"]), "sf": self._values(rng, skind, n),
                "container": rng.choice(["ndarray", "ndarray", "pandas"]),
                "constraint": rng.choice(["demographic_parity", "equalized_odds"]),
                "pred": self._hidden(rng, None, True)[:1], "adv": self._hidden(rng, None, False)[:1],
                "alpha": rng.choice(ALPHAS), "lr_p": rng.choice(("1/8", "1/16", "1/10")), "lr_a": rng.choice(("1/8", "1/16", "1/10")),
                "seed": rng.randint(0, 10 ** 6), "bs": bs, "ep": ep, "mi": mi, "mode": "module", "opt": "callable", "warm": 0,
                "steps": []}

    def generate(self, rng, tier):
        while True:
            if rng.random() < 0.22:
                c = self._fit_case(rng)
                n = len(c["X"])
                ok = True
                for kind, vals in ((c["ykind"], c["y"]), (c["skind"], c["sf"])):
                    t = _target_type(kind, vals)
                    ok = ok and ((kind == "continuous" and t == "continuous") or (kind == "binary" and t == "binary" and len(set(vals)) == 2)
                                 or (kind == "multiclass" and t == "multiclass"))
                if ok and n >= 4 and len(c["y"]) == n and len(c["sf"]) == n:
                    yield c
                continue
            d = rng.choice([1, 2, 2, 3, 3, 4, 5, 6])
            n = rng.randint(4, 16)
            ykind = rng.choice(["binary", "binary", "multiclass", "continuous"])
            skind = rng.choice(["binary", "binary", "multiclass", "continuous"])
            mode = rng.choice(["list", "list", "module"])
            opt = rng.choice(["callable", "callable", "string"] + (["instance"] if mode == "module" else []))
            lr_p = rng.choice(LRS)
            case = {
                "d": d,
                "X": [[str(F(rng.randint(-8, 8), 4)) for _ in range(d)] for _ in range(n)],
                "ykind": ykind, "ystyle": rng.choice(["int", "str"]), "y": self._values(rng, ykind, n),
                "skind": skind, "sstyle": rng.choice(["int", "str"]), "sf": self._values(rng, skind, n),
                "container": rng.choice(["ndarray", "ndarray", "list", "pandas"]),
                "constraint": rng.choice(["demographic_parity", "equalized_odds"]),
                "pred": self._hidden(rng, tier, True), "adv": self._hidden(rng, tier, False),
                "alpha": rng.choice(ALPHAS), "lr_p": lr_p,
                "lr_a": lr_p if opt == "string" else rng.choice(LRS),
                "opt": opt, "mode": mode, "seed": rng.randint(0, 10 ** 6),
                "warm": 1 if mode == "list" else rng.choice([0, 1]),
                "steps": [],
            }
            for _ in range(rng.choice([1, 1, 2])):
                for _try in range(20):
                    m = rng.randint(1, n) if rng.random() < 0.8 else n
                    rows = sorted(rng.sample(range(n), m))
                    if batch_ok(case, rows):
                        case["steps"].append(rows)
                        break
            if valid(case):
                if rng.random() < 0.3:
                    # alpha changed between steps on the SAME engine (seeded C16c: hyper-parameters cached at engine construction)
                    case["alphas"] = [rng.choice(ALPHAS) for _ in case["steps"]]
                yield case

    def _shrink_fit(self, case):
        for k, v in (("ep", 1), ("mi", -1), ("bs", -1), ("pred", []), ("adv", []), ("constraint", "demographic_parity"),
                     ("container", "ndarray"), ("alpha", "1"), ("alpha", "0"), ("ystyle", "int"), ("sstyle", "int")):
            if case[k] != v and not (k == "mi" and case["ep"] == -1):
                yield dict(case, **{k: v})
        if case["mi"] > 1:
            yield dict(case, mi=case["mi"] - 1)
        if case["ep"] > 1:
            yield dict(case, ep=case["ep"] - 1)
        if case["d"] > 1:
            yield dict(case, d=case["d"] - 1, X=[r[:-1] for r in case["X"]])

    def shrink(self, case):
        if case.get("kind") == "fit":
            yield from self._shrink_fit(case)
            return

        def emit(c):
            if valid(c) and c != case:
                yield c
        if case.get("alphas"):
            yield from emit({k: v for k, v in case.items() if k != "alphas"})
        # fewer measured steps / rows
        if len(case["steps"]) > 1:
            for i in range(len(case["steps"])):
                yield from emit(dict(case, steps=[case["steps"][i]]))
        for si, rows in enumerate(case["steps"]):
            for j in range(len(rows)):
                ns = [list(r) for r in case["steps"]]
                ns[si] = rows[:j] + rows[j + 1:]
                yield from emit(dict(case, steps=ns))
        # drop a pool row that no step uses
        used = {i for r in case["steps"] for i in r}
        for i in range(len(case["X"])):
            if i not in used:
                ren = lambda k: k - 1 if k > i else k  # noqa: E731
                yield from emit(dict(case, X=case["X"][:i] + case["X"][i + 1:], y=case["y"][:i] + case["y"][i + 1:],
                                     sf=case["sf"][:i] + case["sf"][i + 1:],
                                     steps=[[ren(k) for k in r] for r in case["steps"]]))
        # simpler architecture
        for key in ("adv", "pred"):
            h = case[key]
            for i in range(len(h)):
                yield from emit(dict(case, **{key: h[:i] + h[i + 1:]}))
            for i, (w, a) in enumerate(h):
                if w > 1:
                    yield from emit(dict(case, **{key: h[:i] + [[w - 1, a]] + h[i + 1:]}))
                if a != "none":
                    yield from emit(dict(case, **{key: h[:i] + [[w, "none"]] + h[i + 1:]}))
        # fewer features
        if case["d"] > 1:
            for j in range(case["d"]):
                yield from emit(dict(case, d=case["d"] - 1, X=[r[:j] + r[j + 1:] for r in case["X"]]))
        for k, v in (("constraint", "demographic_parity"), ("container", "ndarray"), ("ystyle", "int"), ("sstyle", "int"),
                     ("alpha", "1"), ("alpha", "0")):
            if case[k] != v:
                yield from emit(dict(case, **{k: v}))
        if case["skind"] != "binary":
            n = len(case["sf"])
            yield from emit(dict(case, skind="binary", sf=[i % 2 for i in range(n)]))
        if case["ykind"] != "binary":
            n = len(case["y"])
            yield from emit(dict(case, ykind="binary", y=[(i // 2) % 2 for i in range(n)]))
        if case["opt"] != "callable":
            yield from emit(dict(case, opt="callable"))
        simple = [[str(F(F(v).numerator // max(1, F(v).denominator))) for v in r] for r in case["X"]]
        yield from emit(dict(case, X=simple))

    # ------------------------------------------------------------------------------------------ implementation
    def _impl_fit(self, case):
        import numpy as np
        import torch
        torch.set_num_threads(1)
        from fairlearn.adversarial import AdversarialFairnessClassifier, AdversarialFairnessRegressor
        X = np.array([[float(F(v)) for v in r] for r in case["X"]], dtype=float)
        yl = _labels(case["ykind"], case["ystyle"], case["y"])
        sl = _labels(case["skind"], case["sstyle"], case["sf"])
        if case["container"] == "pandas":
            import pandas as pd
            yb = pd.Series(yl, index=[f"r{i}" for i in range(len(yl))])
            sb = pd.Series(sl, index=[f"r{i}" for i in range(len(sl))])
        else:
            yb, sb = np.array(yl), np.array(sl)
        eo = case["constraint"] == "equalized_odds"
        ny, ns = n_out(case["ykind"], case["y"]), n_out(case["skind"], case["sf"])
        pm = _module(case["pred"], case["d"], ny, case["ykind"], case["seed"])
        am = _module(case["adv"], ny * (2 if eo else 1), ns, case["skind"], case["seed"] + 1)
        lr_p, lr_a = float(F(case["lr_p"])), float(F(case["lr_a"]))
        pp, ap = list(pm.parameters()), list(am.parameters())
        rec_p, rec_a = [[] for _ in pp], [[] for _ in ap]
        for i, p in enumerate(pp):
            p.register_hook(lambda g, i=i: rec_p[i].append(g.detach().clone()))
        for i, p in enumerate(ap):
            p.register_hook(lambda g, i=i: rec_a[i].append(g.detach().clone()))
        cls = AdversarialFairnessRegressor if case["ykind"] == "continuous" else AdversarialFairnessClassifier
        est = cls(backend="torch", predictor_model=pm, adversary_model=am, constraints=case["constraint"],
                  alpha=float(F(case["alpha"])), batch_size=case["bs"], epochs=case["ep"], shuffle=False,
                  predictor_optimizer=lambda m: torch.optim.SGD(m.parameters(), lr=lr_p),
                  adversary_optimizer=lambda m: torch.optim.SGD(m.parameters(), lr=lr_a), random_state=case["seed"] % 1000)
        est.max_iter = case["mi"]          # not a constructor parameter of the public classes
        W0 = [p.detach().clone() for p in pp]
        U0 = [p.detach().clone() for p in ap]
        try:
            est.fit(X, yb, sensitive_features=sb)
        except RuntimeError:
            # torch's BCELoss refuses NaN inputs: accepted as "training diverged" only if the parameters really are non-finite
            if any(not bool(torch.isfinite(p).all()) for p in pp + ap):
                return {"kind": "fit", "diverged": True}
            raise
        same = est.backendEngine_.predictor_model is pm and est.backendEngine_.adversary_model is am
        k = len(rec_a[0]) if rec_a else 0
        out = {"kind": "fit", "n_iter": int(est.n_iter_), "same_modules": bool(same), "hook_steps": k,
               "hook_counts_ok": all(len(r) == 2 * k for r in rec_p) and all(len(r) == k for r in rec_a),
               "W0": [{"shape": _shape2(w), "v": _fr(w)} for w in W0], "U0": [{"shape": _shape2(u), "v": _fr(u)} for u in U0],
               "W1": [_fr(p) for p in pp], "U1": [_fr(p) for p in ap], "grads": []}
        if out["hook_counts_ok"]:
            for t in range(k):
                out["grads"].append({"a": [_fr(rec_p[i][2 * t]) for i in range(len(pp))],
                                     "b": [_fr(rec_p[i][2 * t + 1]) for i in range(len(pp))],
                                     "u": [_fr(rec_a[i][t]) for i in range(len(ap))]})
        return out

    def impl(self, case):
        if case.get("kind") == "fit":
            return self._impl_fit(case)
        import numpy as np
        import torch
        torch.set_num_threads(1)
        from fairlearn.adversarial import AdversarialFairnessClassifier, AdversarialFairnessRegressor

        X = np.array([[float(F(v)) for v in r] for r in case["X"]], dtype=float)
        yl = _labels(case["ykind"], case["ystyle"], case["y"])
        sl = _labels(case["skind"], case["sstyle"], case["sf"])

        def box(vals, rows):
            sub = [vals[i] for i in rows]
            if case["container"] == "list":
                return sub
            if case["container"] == "pandas":
                import pandas as pd
                return pd.Series(sub, index=[f"r{i}" for i in rows])
            return np.array(sub)

        Yenc = _encode(case["ykind"], case["y"], case["y"])
        Senc = _encode(case["skind"], case["sf"], case["sf"])
        alpha = float(F(case["alpha"]))
        lr_p, lr_a = float(F(case["lr_p"])), float(F(case["lr_a"]))
        eo = case["constraint"] == "equalized_odds"
        ny, ns = n_out(case["ykind"], case["y"]), n_out(case["skind"], case["sf"])
        kw = {}
        pm = am = None
        if case["mode"] == "module":
            pm = _module(case["pred"], case["d"], ny, case["ykind"], case["seed"])
            am = _module(case["adv"], ny * (2 if eo else 1), ns, case["skind"], case["seed"] + 1)
            if case.get("adv_scale"):
                # corpus only: a nearly constant adversary -> dLA/dW tiny but non-zero
                with torch.no_grad():
                    for p in am.parameters():
                        p.mul_(float(F(case["adv_scale"])))
            kw["predictor_model"], kw["adversary_model"] = pm, am
        else:
            kw["predictor_model"], kw["adversary_model"] = _list_model(case["pred"]), _list_model(case["adv"])
        if case["opt"] == "callable":
            kw["predictor_optimizer"] = lambda m: torch.optim.SGD(m.parameters(), lr=lr_p)
            kw["adversary_optimizer"] = lambda m: torch.optim.SGD(m.parameters(), lr=lr_a)
        elif case["opt"] == "string":
            kw["predictor_optimizer"], kw["adversary_optimizer"] = "SGD", "sgd"
            kw["learning_rate"] = lr_p
        else:
            kw["predictor_optimizer"] = torch.optim.SGD(pm.parameters(), lr=lr_p)
            kw["adversary_optimizer"] = torch.optim.SGD(am.parameters(), lr=lr_a)
        cls = AdversarialFairnessRegressor if case["ykind"] == "continuous" else AdversarialFairnessClassifier
        est = cls(backend="torch", constraints=case["constraint"], alpha=alpha,
                  random_state=case["seed"] % 1000, **kw)
        allrows = list(range(len(case["X"])))
        if case["warm"]:
            est.partial_fit(X, box(yl, allrows), sensitive_features=box(sl, allrows))
        out = {"steps": []}
        first = not case["warm"]
        for si, rows in enumerate(case["steps"]):
            if case.get("alphas"):
                est.alpha = float(F(step_alpha(case, si)))
            if first:
                # the very first call sets the estimator up: it must see every class -> measured on the whole pool
                rows = allrows
            if pm is None:
                pm, am = est.backendEngine_.predictor_model, est.backendEngine_.adversary_model
            p2, a2 = copy.deepcopy(pm), copy.deepcopy(am)
            p2.train()
            a2.train()
            if first:
                lossP = {"binary": torch.nn.BCELoss, "multiclass": torch.nn.CrossEntropyLoss,
                         "continuous": torch.nn.MSELoss}[case["ykind"]]()
                lossA = {"binary": torch.nn.BCELoss, "multiclass": torch.nn.CrossEntropyLoss,
                         "continuous": torch.nn.MSELoss}[case["skind"]]()
            else:
                lossP, lossA = est.backendEngine_.predictor_loss, est.backendEngine_.adversary_loss
            Xb = torch.from_numpy(X[rows]).float()
            Yb = torch.tensor([Yenc[i] for i in rows], dtype=torch.float32)
            Ab = torch.tensor([Senc[i] for i in rows], dtype=torch.float32)
            Yh = p2(Xb)
            LP = lossP(Yh, Yb)
            pp, ap = list(p2.parameters()), list(a2.parameters())
            ga = torch.autograd.grad(LP, pp, retain_graph=True, allow_unused=True)
            Ah = a2(torch.cat((Yh, Yb), dim=1) if eo else Yh)
            LA = lossA(Ah, Ab)
            gb = torch.autograd.grad(LA, pp, retain_graph=True, allow_unused=True)
            gu = torch.autograd.grad(LA, ap, allow_unused=True)
            W0 = [p.detach().clone() for p in pm.parameters()]
            U0 = [p.detach().clone() for p in am.parameters()]
            est.partial_fit(X[rows], box(yl, rows), sensitive_features=box(sl, rows))
            first = False
            W1 = [p.detach().clone() for p in est.backendEngine_.predictor_model.parameters()]
            U1 = [p.detach().clone() for p in est.backendEngine_.adversary_model.parameters()]
            z = lambda g, w: torch.zeros_like(w) if g is None else g  # noqa: E731
            st = {"rows": rows, "pred": [], "adv": []}
            for w0, w1, a, b in zip(W0, W1, ga, gb):
                st["pred"].append({"shape": _shape2(w0), "W0": _fr(w0), "W1": _fr(w1), "a": _fr(z(a, w0)), "b": _fr(z(b, w0))})
            for u0, u1, u in zip(U0, U1, gu):
                st["adv"].append({"shape": _shape2(u0), "U0": _fr(u0), "U1": _fr(u1), "u": _fr(z(u, u0))})
            out["steps"].append(st)
        return out

    # ------------------------------------------------------------------------------------------ protocol
    @staticmethod
    def _mat(shape, flat):
        r, c = shape
        return ";".join(",".join(flat[i * c:(i + 1) * c]) for i in range(r))

    @staticmethod
    def _finite(t):
        return all(v != "nan" for k in ("W0", "a", "b") for v in t[k])

    @staticmethod
    def _fit_finite(o):
        return (o.get("hook_counts_ok") and o["grads"]
                and all(v != "nan" for t in o["W0"] + o["U0"] for v in t["v"])
                and all(v != "nan" for g in o["grads"] for k in ("a", "b", "u") for t in g[k] for v in t))

    def _fit_lines(self, case, o):
        if not self._fit_finite(o):
            return []
        tl = lambda ts, vals: "|".join(self._mat(t["shape"], v) for t, v in zip(ts, vals))  # noqa: E731
        W = tl(o["W0"], [t["v"] for t in o["W0"]])
        U = tl(o["U0"], [t["v"] for t in o["U0"]])
        gs = "@".join(tl(o["W0"], g["a"]) + "#" + tl(o["W0"], g["b"]) + "#" + tl(o["U0"], g["u"]) for g in o["grads"])
        return ["trainstep.applied", f"advstep.fit {case['alpha']} {case['lr_p']} {case['lr_a']} {len(case['X'])} {case['bs']} {case['ep']} {case['mi']} {W} {U} {gs}"]

    def lines(self, case, o):
        if case.get("kind") == "fit":
            return self._fit_lines(case, o) if "grads" in o else []
        ls = []
        if "steps" not in o:
            return ls
        for si, st in enumerate(o["steps"]):
            al = step_alpha(case, si)
            for t in st["pred"]:
                if not self._finite(t):
                    continue
                W, A, B = (self._mat(t["shape"], t[k]) for k in ("W0", "a", "b"))
                ls.append(f"adv.step torch {W} {A} {B} {al} {case['lr_p']}")
                ls.append(f"adv.grad ref {A} {B} {al}")
                ls.append(f"adv.grad suminner {A} {B} {al}")
            for t in st["adv"]:
                if any(v == "nan" for k in ("U0", "u") for v in t[k]):
                    continue
                ls.append(f"adv.sgd {self._mat(t['shape'], t['U0'])} {self._mat(t['shape'], t['u'])} {case['lr_a']}")
        ls.append("trainstep.applied")
        return ls

    # ------------------------------------------------------------------------------------------ judging
    def judge(self, case, o, mo):
        if "crash" in o:
            return [Problem("correspondence", f"implementation crashed: {o}", "impl-total")]
        if case.get("kind") == "fit":
            return self._judge_fit(case, o, mo)
        probs = []
        alpha, lr_p, lr_a = F(case["alpha"]), F(case["lr_p"]), F(case["lr_a"])
        k = 0
        for si, st in enumerate(o["steps"]):
            alpha = F(step_alpha(case, si))
            for ti, t in enumerate(st["pred"]):
                where = f"step {si} predictor tensor {ti} shape {t['shape']}"
                if not self._finite(t):
                    probs.append(Problem("correspondence", f"{where}: non-finite value before the step", "C16.finite-before"))
                    continue
                m_step = m_ref = m_sum = None
                if mo is not None:
                    m_step, m_ref, m_sum = mo[k], mo[k + 1], mo[k + 2]
                    k += 3
                a = [F(v) for v in t["a"]]
                b = [F(v) for v in t["b"]]
                W0 = [F(v) for v in t["W0"]]
                bb = sum(x * x for x in b)
                maxb = max(abs(x) for x in b)
                if bb != 0 and float(maxb) < UNDERFLOW and not f22_shape(b):
                    continue  # float32 gradual-underflow band: not judged (tagged in signature); the F22 shape IS judged
                # ---- oracle: the documented update, exactly ----
                if bb == 0:
                    g = list(a)
                else:
                    c = sum(x * y for x, y in zip(b, a)) / bb
                    g = [x - c * y - alpha * y for x, y in zip(a, b)]
                # ---- model sanity ----
                if mo is not None:
                    want_ref = self._mat(t["shape"], [proto.rat(x) for x in g])
                    if bb != 0 and m_ref != want_ref:
                        probs.append(Problem("harness", f"{where}: model reference update {m_ref[:80]} vs oracle {want_ref[:80]}"))
                    # the engine model built from the LIFTED kinds vs the oracle, exactly (Fractions on both sides)
                    want_step = self._mat(t["shape"], [proto.rat(w - lr_p * x) for w, x in zip(W0, g)])
                    if m_step != want_step:
                        probs.append(model_problem(f"{where}: `adv.step torch` (loop body as lifted) gives {str(m_step)[:80]}, "
                                                   f"the documented update gives {want_step[:80]}"))
                nan_after = any(v == "nan" for v in t["W1"])
                if nan_after:
                    if bb == 0:
                        probs.append(Problem(
                            "property", f"{where}: dLA/dW is exactly zero, the documented update is g = dLP/dW "
                            f"(projection on the zero tensor is 0), but the parameters became NaN (0/0 in the normalisation)",
                            "C16.zero_adversary_gradient"))
                        if mo is not None and m_step != "nan":
                            probs.append(Problem("correspondence", f"{where}: implementation NaN, model {m_step[:60]}",
                                                 "C16.step-model"))
                    else:
                        probs.append(Problem("property", f"{where}: parameters became NaN although dLA/dW != 0", "C16.update_rule"))
                    continue
                W1 = [F(v) for v in t["W1"]]
                obs = [(x - y) / lr_p for x, y in zip(W0, W1)]
                na = math.sqrt(float(sum(x * x for x in a)))
                nb = math.sqrt(float(bb))
                wmax = max(max(abs(float(x)) for x in W0), max(abs(float(x)) for x in W1))
                tol = REL * (na + float(alpha) * nb) + 4 * 2.0 ** -24 * wmax / float(lr_p) + 1e-12
                err = max(abs(float(x - y)) for x, y in zip(obs, g))
                if bb != 0:
                    res = float(sum((x + alpha * y) * y for x, y in zip(obs, b)))
                    if abs(res) > tol * float(sum(abs(y) for y in b)):
                        cos = res / (nb * math.sqrt(float(sum((x + alpha * y) ** 2 for x, y in zip(obs, b)))) + 1e-300)
                        diag = ""
                        if m_sum not in (None, "nan", "bad-op"):
                            gs = [x for r in proto.p_mat(m_sum) for x in r]
                            if max(abs(float(x - y)) for x, y in zip(obs, gs)) <= tol:
                                diag = " (the applied update equals the variant that projects with the SUM OF ALL ROW-PAIR inner products)"
                        if not diag:
                            diag = norm_diagnosis(obs, a, b, alpha, t["shape"])
                        probs.append(Problem(
                            "property", f"{where}: applied update + alpha*dLA/dW is not orthogonal to dLA/dW: "
                            f"<g+alpha b, b> = {res:.3e} (cosine {cos:.3e}, tolerance {tol:.1e}){diag}", "C16.orthogonal"))
                        continue
                if err > tol:
                    probs.append(Problem(
                        "property", f"{where}: (W_before-W_after)/lr differs from dLP/dW - proj - alpha*dLA/dW by {err:.3e} "
                        f"(tolerance {tol:.1e}, |dLP/dW|={na:.2e}, |dLA/dW|={nb:.2e})"
                        + (norm_diagnosis(obs, a, b, alpha, t["shape"]) if bb != 0 else ""), "C16.update_rule"))
                    continue
                if mo is not None:
                    if m_step in ("nan", "bad-op"):
                        probs.append(Problem("correspondence", f"{where}: model says {m_step}, implementation finite", "C16.step-model"))
                    else:
                        mw = [x for r in proto.p_mat(m_step) for x in r]
                        e2 = max(abs(float(x - y)) for x, y in zip(mw, W1))
                        if e2 > tol * float(lr_p):
                            probs.append(Problem("correspondence", f"{where}: parameter after step differs from the model by {e2:.3e}",
                                                 "C16.step-model"))
            for ti, t in enumerate(st["adv"]):
                where = f"step {si} adversary tensor {ti} shape {t['shape']}"
                if any(v == "nan" for kk in ("U0", "u") for v in t[kk]):
                    probs.append(Problem("correspondence", f"{where}: non-finite value before the step", "C16.finite-before"))
                    continue
                m_sgd = None
                if mo is not None:
                    m_sgd = mo[k]
                    k += 1
                if any(v == "nan" for v in t["U1"]):
                    probs.append(Problem("property", f"{where}: adversary parameters became NaN", "C16.adversary_plain_gradient"))
                    continue
                U0 = [F(v) for v in t["U0"]]
                U1 = [F(v) for v in t["U1"]]
                u = [F(v) for v in t["u"]]
                obs = [(x - y) / lr_a for x, y in zip(U0, U1)]
                nu = math.sqrt(float(sum(x * x for x in u)))
                wmax = max(max(abs(float(x)) for x in U0), max(abs(float(x)) for x in U1))
                tol = REL * nu + 4 * 2.0 ** -24 * wmax / float(lr_a) + 1e-12
                err = max(abs(float(x - y)) for x, y in zip(obs, u))
                if err > tol:
                    probs.append(Problem(
                        "property", f"{where}: (U_before-U_after)/lr differs from dLA/dU by {err:.3e} (tolerance {tol:.1e})",
                        "C16.adversary_plain_gradient"))
                if mo is not None:
                    want = self._mat(t["shape"], [proto.rat(x - lr_a * y) for x, y in zip(U0, u)])
                    if m_sgd != want:
                        probs.append(Problem("harness", f"{where}: model sgd {str(m_sgd)[:80]} vs oracle {want[:80]}"))
        if mo is not None and len(mo) > k and mo[k] != WANT_APPLIED:
            probs.append(model_problem(f"the statement structure lifted from train_step hands the optimisers {mo[k]}, documented {WANT_APPLIED}"))
        return probs

    def _judge_fit(self, case, o, mo):
        """whole fit: final parameters = fold of the documented step over the scheduled slices (gradients from hooks)"""
        probs = []
        if o.get("diverged"):
            return probs      # the generated learning rate made training overflow to NaN: nothing to compare (tagged)
        alpha, lr_p, lr_a = F(case["alpha"]), F(case["lr_p"]), F(case["lr_a"])
        want_k = planned_steps(len(case["X"]), case["bs"], case["ep"], case["mi"])
        if not o["same_modules"]:
            probs.append(Problem("correspondence", "fit did not train the user-supplied modules", "C16.fit-uses-modules"))
            return probs
        if o["n_iter"] != want_k or o["hook_steps"] != want_k or not o["hook_counts_ok"]:
            probs.append(Problem("property", f"fit made {o['hook_steps']} backward passes of LA (n_iter_ = {o['n_iter']}); the documented "
                                 f"schedule has {want_k} steps, each with one backward pass of LP and one of LA", "C16.one_step_per_slice"))
            return probs
        if not self._fit_finite(o):
            return probs      # diverged (tagged)
        W = [[F(v) for v in t["v"]] for t in o["W0"]]
        U = [[F(v) for v in t["v"]] for t in o["U0"]]
        tolW = [1e-12] * len(W)
        tolU = [1e-12] * len(U)
        for g in o["grads"]:
            for i in range(len(W)):
                a, b = [F(v) for v in g["a"][i]], [F(v) for v in g["b"][i]]
                bb = sum(x * x for x in b)
                if bb != 0 and float(max(abs(x) for x in b)) < UNDERFLOW and not f22_shape(b):
                    return probs      # float32 gradual-underflow band: not judged (tagged); the F22 shape IS judged
                if bb == 0:
                    gg = a
                else:
                    c = sum(x * y for x, y in zip(b, a)) / bb
                    gg = [x - c * y - alpha * y for x, y in zip(a, b)]
                W[i] = [w - lr_p * x for w, x in zip(W[i], gg)]
                na, nb = math.sqrt(float(sum(x * x for x in a))), math.sqrt(float(bb))
                tolW[i] += float(lr_p) * REL * (na + float(alpha) * nb) + 4 * 2.0 ** -24 * max(abs(float(x)) for x in W[i])
            for i in range(len(U)):
                u = [F(v) for v in g["u"][i]]
                U[i] = [w - lr_a * x for w, x in zip(U[i], u)]
                tolU[i] += float(lr_a) * REL * math.sqrt(float(sum(x * x for x in u))) + 4 * 2.0 ** -24 * max(abs(float(x)) for x in U[i])
        nan_after = any(v == "nan" for t in o["W1"] + o["U1"] for v in t)
        if nan_after:
            probs.append(Problem("property", "parameters became NaN during fit although every recorded gradient is finite", "C16.update_rule"))
            return probs
        for who, want, got, tol, rel in (("predictor", W, o["W1"], tolW, "C16.fit_is_fold_of_steps"),
                                         ("adversary", U, o["U1"], tolU, "C16.fit_is_fold_of_steps")):
            for i, (w, g1) in enumerate(zip(want, got)):
                err = max(abs(float(x - F(y))) for x, y in zip(w, g1))
                if err > tol[i]:
                    probs.append(Problem("property", f"{who} tensor {i} after fit ({want_k} steps) differs by {err:.3e} (tolerance {tol[i]:.1e}) "
                                         f"from the fold of the documented step (projected gradient / plain gradient, SGD) over the recorded "
                                         f"autograd gradients", rel))
                    break
        if mo is not None and mo and mo[0] != WANT_APPLIED:
            probs.append(model_problem(f"the statement structure lifted from train_step hands the optimisers {mo[0]}, documented {WANT_APPLIED}"))
        if mo is not None and len(mo) > 1:
            toks = mo[1].split(" ")
            wantW = "|".join(self._mat(t["shape"], [proto.rat(x) for x in w]) for t, w in zip(o["W0"], W))
            wantU = "|".join(self._mat(t["shape"], [proto.rat(x) for x in u]) for t, u in zip(o["U0"], U))
            if toks != [str(want_k), wantW, wantU]:
                probs.append(model_problem(f"advstep.fit gives {mo[1][:120]}, the fold of the documented step gives {want_k} {wantW[:60]} {wantU[:40]}"))
        return probs

    def _f22_tensors(self, case, o):
        """`where` prefixes (step kind) / True (fit kind) of the dLA/dW tensors of this run that have the F22 shape"""
        hits = []
        if case.get("kind") == "fit":
            for g in o.get("grads", []):
                for bvals in g["b"]:
                    if all(v != "nan" for v in bvals) and f22_shape([F(v) for v in bvals]):
                        hits.append(True)
            return hits
        for si, st in enumerate(o.get("steps", [])):
            for ti, t in enumerate(st["pred"]):
                if self._finite(t) and f22_shape([F(v) for v in t["b"]]):
                    hits.append(f"step {si} predictor tensor {ti} shape {t['shape']}")
        return hits

    def known(self, case, problem, entries):
        for e in entries:
            if e.get("match") == problem.relation:
                return e
        # F22: float32 norm underflow.  Matched ONLY when the failing tensor itself has the exact shape (non-zero, every
        # |entry| <= 2^-75) and the failure is of the update rule / orthogonality (for a whole fit: of the fold of steps, with
        # such a tensor among the recorded gradients).  Any other orthogonality failure stays a VIOLATION.
        if problem.kind != "property" or problem.relation not in ("C16.orthogonal", "C16.update_rule", "C16.fit_is_fold_of_steps"):
            return None
        ents = [e for e in entries if e.get("predicate") == "float32_norm_underflows_to_zero"]
        if not ents:
            return None
        o = self.safe_impl(case)
        if not isinstance(o, dict) or "crash" in o:
            return None
        hits = self._f22_tensors(case, o)
        if case.get("kind") == "fit":
            return ents[0] if hits else None
        if any(problem.msg.startswith(w + ":") for w in hits):
            return ents[0]
        return None

    def signature(self, case, o):
        if case.get("kind") == "fit":
            k = planned_steps(len(case["X"]), case["bs"], case["ep"], case["mi"])
            tags = ["kind=fit", f"fit_steps={k}", f"y={case['ykind']}", f"sf={case['skind']}", case["constraint"],
                    "fit_batch=-1" if case["bs"] == -1 else "fit_batch>0", "fit_max_iter" if case["mi"] != -1 else "fit_epochs"]
            if o.get("diverged"):
                tags.append("fit_diverged_not_judged")
            if "grads" in o and not self._fit_finite(o):
                tags.append("fit_not_judged_nonfinite")
            return proto_key(case), ("grads" in o and bool(o["grads"])), tags
        tags = [f"y={case['ykind']}", f"sf={case['skind']}", case["constraint"], f"alpha={case['alpha']}",
                f"mode={case['mode']}", f"opt={case['opt']}", f"container={case['container']}",
                f"pred_hidden={len(case['pred'])}", f"adv_hidden={len(case['adv'])}", f"warm={case['warm']}",
                "alpha_rescheduled" if case.get("alphas") else "alpha_constant",
                f"ylabels={case['ystyle']}" if case["ykind"] != "continuous" else "ylabels=float"]
        nontriv = False
        if "steps" in o:
            multi = multi2 = zero = under = f22 = rank2 = twoentries = False
            for st in o["steps"]:
                tags.append("batch_rows=" + ("1" if len(st["rows"]) == 1 else "2-4" if len(st["rows"]) <= 4 else "5-16"))
                for t in st["pred"]:
                    r, c = t["shape"]
                    fin = [v for v in t["b"] if v != "nan"]
                    mb = max([abs(float(F(v))) for v in fin] or [0.0])
                    if mb == 0:
                        zero = True
                    elif mb <= float(F22_MAX):
                        f22 = True
                    elif mb < UNDERFLOW:
                        under = True
                    else:
                        nontriv = True
                        if r >= 2:
                            multi = True
                        if r >= 2 and c >= 2:
                            multi2 = True
                        # shapes on which the NORM KIND is visible: >= 2 non-zero entries (L1 / max-abs differ from the 2-norm),
                        # two non-proportional rows (rank >= 2: the spectral norm differs from the Frobenius norm)
                        if len(fin) == len(t["b"]):
                            bv = [F(v) for v in t["b"]]
                            if sum(1 for v in bv if v != 0) >= 2:
                                twoentries = True
                            if r >= 2 and c >= 2 and not rank2:
                                rows_ = [bv[i * c:(i + 1) * c] for i in range(r)]
                                rank2 = any(rows_[i][k] * rows_[j][m] != rows_[i][m] * rows_[j][k]
                                            for i in range(r) for j in range(i + 1, r) for k in range(c) for m in range(k + 1, c))
            tags.append("has_multirow_tensor" if multi else "only_single_row_tensors")
            if multi2:
                tags.append("has_tensor_rows>=2_cols>=2")
            if rank2:
                tags.append("has_dLA/dW_rank>=2(non-proportional_rows)")
            if twoentries:
                tags.append("has_dLA/dW_with>=2_nonzero_entries")
            if zero:
                tags.append("some_dLA/dW_zero")
            if under:
                tags.append("some_dLA/dW_underflow_not_judged")
            if f22:
                tags.append("some_dLA/dW_norm_underflows_to_zero(F22,judged)")
        else:
            tags.append("crash")
        return proto_key(case), nontriv, tags


def proto_key(case):
    import json
    return json.dumps(case, sort_keys=True)
