"""C05 — ThresholdOptimizer returns the best parity-satisfying threshold rule on its grid."""
from fractions import Fraction as F

from .. import thr_common as tc
from ..core import Problem, register
from .c04 import ThresholdCheck, common_judge, mark_f18, stash_tags

TOL = tc.TOL
# scipy HiGHS vs the exact envelope optimum: measured max |difference| 1.1e-15 on 600 clean-tree cases (HiGHS returns a
# basic solution; its feasibility tolerance of 1e-7 is not what limits the accuracy of the optimum on these tiny LPs).
# 1e-9 keeps six orders of magnitude of head-room (was 1e-6); a disagreement is a HARNESS error (exit 2), never a violation.
LP_TOL = 1e-9


@register
class CHECK(ThresholdCheck):
    pid = "C05"
    small = True
    technique = ("Lean 4 theorems over the Threshold model (monotone-chain hull supports all tradeoff points, mixtures "
                 "stay under the supporting line, arg-max over the grid) + compiled-driver correspondence; reference "
                 "optimum by brute-force concave envelopes in Fractions and, independently, scipy linprog")
    level_text = ("Theorems (all datasets with both labels per group, any number of groups, every constraint / objective "
                  "/ flip / grid size, no size bound): hull_supporting (monotone-chain correctness), mixture_le_line, "
                  "interpolated curve = concave envelope on the grid, optimal_simple (no family of per-group mixtures of "
                  "threshold rules with a common grid value of the constrained metric beats the fitted rule), "
                  "ge_constant (both constant classifiers), optimal_EO (any ROC point common to all groups is under the "
                  "pointwise-lowest hull; both admissible objectives are monotone in TPR). Tie: achieved objective from "
                  "_pmf_predict vs the exact model and vs a first-principles reference optimum.")
    design_ref = "DESIGN.md section 4, C05"
    quick_cases = 1400
    thorough_cases = 15000
    quick_budget_s = 110
    thorough_budget_s = 1100
    rule = ("datasets as in C04 with sizes capped (2-5 groups of 2-8 rows, grid sizes {1,2,3,5,7,10,100}) so that the "
            "reference optimum stays small: for every grid value the concave envelope of ALL thresholdings of each "
            "group (and flipped ones when flip) computed naively in Fractions (best point / best chord), weighted by "
            "group frequency, resp. objective of (x, min of envelopes) for equalized odds; scipy.optimize.linprog over "
            "the mixture weights cross-checks the envelope on cases with grid <= 10; distinct / non-trivial as in C04; "
            "thorough additionally enumerates all multisets of rows up to size 6 over 2 groups x 3 levels and size 8 "
            "over 3 groups x 2 levels")
    explanation = ("optimality theorems proved over the Lean model for all inputs (exact arg-max); the implementation's "
                   "achieved objective (from _pmf_predict alone) must reach the reference optimum within 1e-12 and the "
                   "best constant classifier; model objective must equal the reference optimum exactly (else harness "
                   "error); linprog must agree with the envelope within 1e-9 (else harness error)")
    trusted = ("as C04; additionally np.around(.,15) / floating-point ties in the arg-max are outside the model: the "
               "comparison is on objective VALUES (tolerance 1e-12), any arg-max within tolerance is accepted",
               "scipy.optimize.linprog (HiGHS) is only a cross-check of the Fraction envelope oracle")
    assumptions = ("every group contains both labels", "scores are finite", "grid_size >= 1",
                   "np.around(objective, 15) (ThresholdFitSrc.aroundDecimals) is the identity on the exact model "
                   "(Threshold.aroundModel_eq): optimality is proved of the exact arg-max")

    def exhaustive(self, tier):
        cyc = tc.cfg_cycle()
        yield from tc.exhaustive_cases(2, 3, 6, cyc)
        yield from tc.exhaustive_cases(3, 2, 8, cyc)

    def judge(self, case, o, mo):
        base, ctx = common_judge(case, o, mo, "C05")
        stash_tags(o, ctx)
        probs = []
        # parity problems belong to C04; here they mean "the fitted rule is not itself a parity-satisfying rule"
        parity_broken = False
        for p in base:
            if p.kind == "property" and p.relation and p.relation.startswith("C04."):
                parity_broken = True
                probs.append(Problem("property", "fitted rule is not a feasible rule of the comparison class: " + p.msg,
                                     "C05.feasible"))
            else:
                probs.append(p)
        view = ctx.get("view")
        if view is None or "rules" not in o:
            return tc.cap_when_tie_broken(mark_f18(case, o, probs))
        gs, rows = tc.groups_of(case)
        N = case["grid"]
        eo = case["constraint"] == "equalized_odds"
        ex0 = view[gs[0]]["ex"]
        if abs(ex0 * N - round(ex0 * N)) > TOL * max(N, 1) and not parity_broken:
            probs.append(Problem("property", f"common constraint value {ex0!r} is not on the grid 0..1 step 1/{N}",
                                 "C05.feasible"))
            parity_broken = True
        achieved = tc.achieved_objective(case, o)
        opt, vals = tc.reference_optimum(case)
        rel = "C05.optimal_EO" if eo else "C05.optimal_simple"
        suboptimal = False
        if achieved < float(opt) - TOL:
            suboptimal = True
            probs.append(Problem("property", f"achieved objective {achieved:.12g} is below the best parity-satisfying "
                                 f"rule on the grid {float(opt):.12g} (= {opt})", rel))
        elif achieved > float(opt) + TOL and not parity_broken:
            probs.append(Problem("harness", f"achieved objective {achieved:.12g} exceeds the reference optimum {opt}"))
        cmax = max(tc.constant_objectives(case))
        if achieved < float(cmax) - TOL:
            probs.append(Problem("property", f"achieved objective {achieved:.12g} is worse than the best constant "
                                 f"classifier {cmax}", "C05.ge_constant"))
        if opt < cmax:
            probs.append(Problem("harness", f"reference optimum {opt} below the constant classifier {cmax}"))
        tags = o.setdefault("_tags", [])
        if N <= 10 and len(case["rows"]) <= 24:
            lp = tc.linprog_optimum(case)
            tags.append("linprog-cross-check")
            if lp is None or abs(lp - float(opt)) > LP_TOL:
                probs.append(Problem("harness", f"linprog optimum {lp} vs envelope optimum {opt}"))
        if opt > cmax:
            tags.append("optimum-strictly-better-than-constant")
        m0, m1 = ctx.get("m0"), ctx.get("m1")
        # model vs oracle is a bug of this machinery -- unless the implementation itself misses the optimum on this very
        # input (then the translator-fed model merely follows the changed source, and the property problem above stands)
        if m0 is not None and not suboptimal:
            if m0["objective"] != opt:
                probs.append(tc.model_problem(f"model objective {m0['objective']} vs reference optimum {opt}", "C05"))
            if vals[m0["i"]] != opt:
                probs.append(tc.model_problem(f"model arg-max {m0['i']} is not an arg-max of the reference {vals}", "C05"))
        if m1 is not None and abs(float(m1["objective"]) - achieved) > TOL and not parity_broken:
            probs.append(Problem("correspondence", f"achieved objective {achieved:.12g} vs model objective at the "
                                 f"implementation's grid index {float(m1['objective']):.12g}", "C05.objective"))
        return tc.cap_when_tie_broken(mark_f18(case, o, probs))
