"""C12 — rows are matched by position, not by container type, index label or row order.

One base dataset per case and ONE variant of how the arguments are handed over (container type per argument,
pandas index labels per argument), or a joint row permutation, or a bijective relabelling of the groups.
Every variant is compared with
  (a) the plain-list baseline run of the same entry point (implementation vs implementation),
  (b) the compiled Lean model evaluated on the POSITIONAL zip of the base dataset,
  (c) a first-principles oracle in exact Fractions on the positional zip (decides `property` problems).
Entry points: mf (MetricFrame), fm (six named fairness metrics), mom (parity moments, ErrorRate,
BoundedGroupLoss), eg (ExponentiatedGradient), gs (GridSearch), to (ThresholdOptimizer fit + _pmf_predict)."""
import itertools
import json
import logging
import os
import random
from fractions import Fraction as F

import numpy as np
import pandas as pd

from .. import proto
from .. import redoracle as ro
from .. import thr_common as tc
from ..core import Check, Problem, register
from ..learners import RECORDS, ExactLearner
from . import c01 as c01mod
from . import c02 as c02mod
from . import c04 as c04mod
from . import c06 as c06mod
from . import mfcommon as mc

logging.getLogger("fairlearn").setLevel(logging.ERROR)

# Tolerances (review R3), measured on the unchanged tree (4200 generated cases, seeds 0..3, all streams):
#   implementation vs Fraction oracle: max relative deviation 6.7e-16 (moment gamma)          -> TOL    = 5e-14
#   variant vs plain-list baseline:    0.0 for every container variant and relabelling (identical code path, bit-equal),
#                                      3.3e-16 for joint row permutations (order of a float sum) -> VB_TOL = 1e-14
#   weights seen by the base learner vs exact relabelling: max absolute deviation 2.4e-15      -> LEARNER_TOL = 5e-14
#   EG mixture / ThresholdOptimizer predict-time rule: 0.0                                     -> 1e-14 (floor of 45 ulp)
# (they were 1e-9 / 1e-7 / 1e-12 before: 5-8 orders of magnitude wider than anything observed)
TOL = 5e-14
#   EG mixture / ThresholdOptimizer predict-time rule: 0.0                                     -> 1e-14 (floor of 45 ulp)
# (they were 1e-9 / 1e-7 / 1e-12 before: 6-8 orders of magnitude wider than anything observed)
TOL = 5e-14
VB_TOL = 1e-14
LEARNER_TOL = 5e-14
MIX_TOL = 1e-14
LIVE_EPS = 1e-9          # a relabelled row counts as carrying weight when its exact weight exceeds this (not a tolerance)
IDX_KINDS = ["default", "shuffled", "offset", "dup", "string"]
PANDAS = ("ser", "ser_nn", "ser_cat", "df", "df0")
_COUNTER = itertools.count()


# ===================================================================== containers and index labels
def mk_index(kind, n, seed):
    """pandas index labels of one argument; `shuffled` is a permutation of 0..n-1 (every label is the POSITION of
    some other row), `offset` overlaps the default labels shifted by one, `dup` repeats labels, `string` = shuffled text"""
    if kind == "default":
        return None
    rs = random.Random(seed)
    if kind == "shuffled":
        p = list(range(n))
        rs.shuffle(p)
        if n > 1 and p == list(range(n)):
            p = p[1:] + p[:1]
        return p
    if kind == "offset":
        return list(range(1, n + 1))
    if kind == "dup":
        return [(n - 1 - i) // 2 for i in range(n)]
    if kind == "string":
        lab = [f"r{i}" for i in range(n)]
        rs.shuffle(lab)
        return lab
    raise KeyError(kind)


def vec(values, spec, name):
    """one column in the requested container; spec = {"c": container, "i": index kind, "s": seed}"""
    c = spec["c"]
    values = list(values)
    n = len(values)
    if c == "list":
        return values
    if c == "nd":
        return np.array(values)
    if c == "nd2":
        return np.array(values).reshape(-1, 1)
    idx = mk_index(spec.get("i", "default"), n, spec.get("s", 0))
    if c == "ser":
        return pd.Series(values, index=idx, name=name)
    if c == "ser_nn":
        return pd.Series(values, index=idx)
    if c == "ser_cat":
        # categorical dtype (seeded C12d: a dtype-specific shortcut that hands the caller's own Series on, index included)
        return pd.Series(pd.Categorical(values), index=idx, name=name)
    if c == "df":
        return pd.DataFrame({name: values}, index=idx)
    if c == "df0":
        return pd.DataFrame(values, index=idx)
    if c == "dict":
        return {name: np.array(values)}
    raise KeyError(c)


def feat(cols, names, spec):
    """feature argument with one or more columns"""
    if len(cols) == 1 and spec["c"] != "nd2obj":
        return vec(cols[0], spec, names[0])
    c = spec["c"]
    n = len(cols[0])
    if c == "dict":
        return {nm: np.array(list(col)) for nm, col in zip(names, cols)}
    if c == "dictlist":
        return {nm: list(col) for nm, col in zip(names, cols)}
    if c == "df":
        return pd.DataFrame({nm: list(col) for nm, col in zip(names, cols)},
                            index=mk_index(spec.get("i", "default"), n, spec.get("s", 0)))
    if c in ("nd2", "nd2obj"):
        return np.array([[col[i] for col in cols] for i in range(n)], dtype=object)
    raise KeyError(c)


def xmat(values, spec, name="f"):
    """feature matrix X (one column): ndarray (n,1) or DataFrame with index labels"""
    arr = np.array([float(v) for v in values]).reshape(-1, 1)
    if spec["c"] == "nd":
        return arr
    return pd.DataFrame(arr, columns=[name], index=mk_index(spec.get("i", "default"), len(values), spec.get("s", 0)))


def sp(c, i="default", s=0):
    return {"c": c, "i": i, "s": s}


def is_pandas(spec):
    return spec is not None and spec["c"] in PANDAS


def nondefault(spec):
    return is_pandas(spec) and spec.get("i", "default") != "default"


# ===================================================================== covering arrays
def covering(rng, factors, tries=24):
    """greedy pairwise covering array over `factors` (dict name -> list of values); list of dict rows"""
    names = list(factors)
    unc = set()
    for i, a in enumerate(names):
        for b in names[i + 1:]:
            for va in range(len(factors[a])):
                for vb in range(len(factors[b])):
                    unc.add((a, va, b, vb))
    rows = []
    while unc:
        pool = sorted(unc)
        best, bestc = None, -1
        for _ in range(tries):
            a, va, b, vb = rng.choice(pool)
            cand = {nm: rng.randrange(len(factors[nm])) for nm in names}
            cand[a], cand[b] = va, vb
            cnt = sum(1 for (p, vp, q, vq) in pool if cand[p] == vp and cand[q] == vq)
            if cnt > bestc:
                best, bestc = cand, cnt
        unc = {(p, vp, q, vq) for (p, vp, q, vq) in unc if not (best[p] == vp and best[q] == vq)}
        rows.append({nm: factors[nm][best[nm]] for nm in names})
    return rows


def variants(rng, argdom, mode):
    """argdom: dict arg -> list of containers.  mode 'pairwise': pairwise covering over the container and the index
    factor of every argument (+ a few all-pandas rows with independent index kinds); mode 'full': full product of the
    containers with index kinds drawn at random for the pandas ones."""
    args = list(argdom)
    out = []
    if mode == "full":
        for combo in itertools.product(*[argdom[a] for a in args]):
            out.append({a: sp(c, rng.choice(IDX_KINDS), rng.randrange(10 ** 6)) for a, c in zip(args, combo)})
        return out
    factors = {}
    for a in args:
        factors["c:" + a] = list(argdom[a])
        if any(c in PANDAS for c in argdom[a]):
            factors["i:" + a] = list(IDX_KINDS)
    for row in covering(rng, factors):
        out.append({a: sp(row["c:" + a], row.get("i:" + a, "default"), rng.randrange(10 ** 6)) for a in args})
    for _ in range(6):      # all-pandas rows: every argument carries its own labels
        v = {}
        for a in args:
            pc = [c for c in argdom[a] if c in PANDAS]
            c = rng.choice(pc) if pc else rng.choice(argdom[a])
            v[a] = sp(c, rng.choice(IDX_KINDS[1:]), rng.randrange(10 ** 6))
        out.append(v)
    return out


# ===================================================================== comparison helpers
def close(a, b, tol=TOL):
    """tokens (float or str) equal up to a relative tolerance"""
    if isinstance(a, str) or isinstance(b, str):
        return a == b
    if a is None or b is None:
        return a is b
    return abs(a - b) <= tol * max(1.0, abs(a), abs(b))


def deep_close(a, b, tol=TOL):
    if isinstance(a, dict) and isinstance(b, dict):
        return a.keys() == b.keys() and all(deep_close(a[k], b[k], tol) for k in a)
    if isinstance(a, (list, tuple)) and isinstance(b, (list, tuple)):
        return len(a) == len(b) and all(deep_close(x, y, tol) for x, y in zip(a, b))
    if isinstance(a, bool) or isinstance(b, bool):
        return a == b
    if isinstance(a, (int, float)) and isinstance(b, (int, float)):
        return close(float(a), float(b), tol)
    return a == b


def first_diff(a, b, path="", tol=TOL):
    """path of the first difference between two JSON values (None if close)"""
    if isinstance(a, dict) and isinstance(b, dict):
        if a.keys() != b.keys():
            return f"{path}: keys {sorted(a)} vs {sorted(b)}"
        for k in a:
            d = first_diff(a[k], b[k], f"{path}.{k}", tol)
            if d:
                return d
        return None
    if isinstance(a, (list, tuple)) and isinstance(b, (list, tuple)):
        if len(a) != len(b):
            return f"{path}: length {len(a)} vs {len(b)}"
        for i, (x, y) in enumerate(zip(a, b)):
            d = first_diff(x, y, f"{path}[{i}]", tol)
            if d:
                return d
        return None
    return None if deep_close(a, b, tol) else f"{path}: {a!r} vs {b!r}"


def fr(x):
    return F(x)


def fl(x):
    return float(F(x))


def permute(lst, perm):
    """row i of the result is row perm[i] of the input"""
    return [lst[j] for j in perm]


def unpermute(lst, perm):
    out = [None] * len(lst)
    for i, j in enumerate(perm):
        out[j] = lst[i]
    return out


def x_pymax(a, b):
    return b if c02mod.x_lt(a, b) else a


def x_pymin(a, b):
    return b if c02mod.x_lt(b, a) else a


def x_mean(vals):
    vs = [v for v in vals if not c02mod.isnan(v)]
    if not vs:
        return "nan"
    if any(isinstance(v, str) for v in vs):
        if "inf" in vs and "-inf" in vs:
            return "nan"
        return "inf" if "inf" in vs else "-inf"
    return sum(vs) / len(vs)


def exc_token(e):
    return {"exc": type(e).__name__, "msg": str(e)[:160]}


# ===================================================================== entry point: MetricFrame
SF_NAMES = ["s0", "s1"]
CF_NAMES = ["c0"]
STR_POOLS = [["a", "b", "c"], ["x", "y", "z"], ["B", "a", "aa"], ["10", "9", "Z"]]
INT_POOLS = [[0, 1, 2], [2, 10, 9], [7, 3, 12]]
WEIGHTED_TAGS = ["selrate", "tpr", "fpr", "accuracy", "meanpred", "tnr", "fnr"]
FP_TAGS = ["fprows", "fpy", "fppred"]
PLAIN_TAGS = ["count", "selrate", "tpr", "fpr", "accuracy", "meanpred"]
_C01 = None


def c01check():
    global _C01
    if _C01 is None:
        _C01 = c01mod.CHECK()
    return _C01


def gen_features(rng, n, k):
    cols = []
    for _ in range(k):
        pool = rng.choice(INT_POOLS) if rng.random() < 0.3 else rng.choice(STR_POOLS)
        m = rng.choice([2, 2, 3])
        vals = rng.sample(pool, m)
        col = [rng.choice(vals) for _ in range(n)]
        if len(set(col)) < 2 and n >= 2:
            col[0], col[1] = vals[0], vals[1]
        cols.append(col)
    return cols


def gen_weights(rng, n):
    if rng.random() < 0.5:
        return [str(rng.randint(1, 5)) for _ in range(n)]
    return [str(F(rng.randint(1, 24), rng.choice([1, 2, 4, 8]))) for _ in range(n)]


def relabel_col(col, seed):
    """a bijection of the values of one feature column onto fresh labels of the same type whose ORDER differs"""
    vals = sorted(set(col))
    rs = random.Random(seed)
    if isinstance(vals[0], int):
        new = rs.sample(range(20, 60), len(vals))
    else:
        new = rs.sample(["q", "Q1", "zz", "m m", "07", "k", "Ab", "ü"], len(vals))
    mp = dict(zip(vals, new))
    return [mp[v] for v in col], mp


class EPBase:
    name = ""
    modes = ("container", "perm", "relabel")
    flavors = (None,)      # variants of the argument list; every flavour gets its own covering array per round

    def shrink(self, base):
        return iter(())

    def tags(self, base):
        return []

    def expect(self, mode, out0, info):
        return out0

    def canon(self, out):
        return out

    def expected_rejection(self, base, out0):
        """is a failure of the plain-list run the documented / already known behaviour on this base dataset?"""
        return False

    def extra_variants(self, rng, base):
        """variants every base dataset of this entry point gets besides its share of the covering array"""
        return []


class MFEntry(EPBase):
    name = "mf"
    flavors = ("ncf0", "ncf1")

    def gen_base(self, rng, flavor=None):
        n = rng.choice([2, 3, 4, 5, 6, 8, 10, 12, 14])
        nsf = rng.choice([1, 1, 2])
        ncf = {"ncf0": 0, "ncf1": 1}.get(flavor, rng.choice([0, 1]))
        y = [rng.randint(0, 1) for _ in range(n)]
        pred = [rng.randint(0, 1) for _ in range(n)]
        specs = [{"tag": rng.choice(WEIGHTED_TAGS), "w": gen_weights(rng, n), "ids": None, "a": None},
                 {"tag": rng.choice(FP_TAGS), "w": None, "ids": [str(2 ** i) for i in range(n)], "a": None},
                 {"tag": rng.choice(PLAIN_TAGS), "w": None, "ids": None, "a": None}]
        return {"y": y, "pred": pred, "sf": gen_features(rng, n, nsf), "cf": gen_features(rng, n, ncf), "specs": specs}

    def argdom(self, base):
        one = ["list", "nd", "nd2", "ser", "ser_nn", "df", "dict"]
        many = ["nd2", "df", "dict"]
        d = {"y_true": ["list", "nd", "nd2", "ser", "df"], "y_pred": ["list", "nd", "nd2", "ser", "df"],
             "sf": one if len(base["sf"]) == 1 else many,
             "w": ["list", "nd", "ser", "df"], "ids": ["list", "nd", "ser"]}
        if base["cf"]:
            d["cf"] = one
        return d

    def baseline(self, base):
        v = {"y_true": sp("list"), "y_pred": sp("list"), "w": sp("list"), "ids": sp("list"),
             "sf": sp("list") if len(base["sf"]) == 1 else sp("dictlist")}
        if base["cf"]:
            v["cf"] = sp("list")
        return v

    def names(self):
        return ["m0", "m1", "m2"]

    def run(self, base, var):
        from fairlearn.metrics import MetricFrame
        ncf, nsf = len(base["cf"]), len(base["sf"])
        try:
            kw = {}
            if base["cf"]:
                kw["control_features"] = feat(base["cf"], CF_NAMES[:ncf], var["cf"])
            s0, s1 = base["specs"][0], base["specs"][1]
            spar = {"m0": {"sample_weight": vec([fl(x) for x in s0["w"]], var["w"], "w")},
                    "m1": {"ids": vec([fl(x) for x in s1["ids"]], var["ids"], "ids")}}
            mf = MetricFrame(metrics={nm: mc.pyfunc(s["tag"]) for nm, s in zip(self.names(), base["specs"])},
                             y_true=vec(base["y"], var["y_true"], "yt"), y_pred=vec(base["pred"], var["y_pred"], "yp"),
                             sensitive_features=feat(base["sf"], SF_NAMES[:nsf], var["sf"]), sample_params=spar, **kw)
            bg, ov = mf.by_group, mf.overall
            aggs = {"min": mf.group_min(), "max": mf.group_max(), "difference": mf.difference(), "ratio": mf.ratio()}
            out = {"metrics": {}}
            for nm in self.names():
                m = {"by_group": mc.series_table(bg[nm], ncf + nsf),
                     "overall": [[[], mc.tok(ov[nm])]] if ncf == 0 else mc.series_table(ov[nm], ncf), "agg": {}}
                for k, r in aggs.items():
                    m["agg"][k] = [[[], mc.tok(r[nm])]] if ncf == 0 else mc.series_table(r[nm], ncf)
                out["metrics"][nm] = m
            return out
        except Exception as e:  # noqa: BLE001  a rejection / failure is a RESULT here (compared with the baseline)
            return exc_token(e)

    def _c01case(self, base):
        return {"y": base["y"], "pred": base["pred"], "sf": base["sf"], "cf": base["cf"]}

    def oracle(self, base):
        """per metric: (by_group dict, overall dict, aggregates dict stratum -> documented values)"""
        ncf = len(base["cf"])
        res = {}
        for nm, spec in zip(self.names(), base["specs"]):
            by, ov = c01check().oracle(self._c01case(base), spec)
            doc = {}
            for c in sorted(ov):
                vs = [v for k, v in sorted(by.items()) if k[:ncf] == c]
                doc[c] = c02mod.documented(vs, ov[c])
            res[nm] = (by, ov, doc)
        return res

    def plan(self, base, out):
        c = self._c01case(base)
        n = len(base["y"])
        ys, ps = proto.lst([F(v) for v in base["y"]]), proto.lst([F(v) for v in base["pred"]])
        cols = " ".join(proto.strs(col) for col in c01check()._cols(c))
        orc = self.oracle(base)
        plan = []
        for nm, s in zip(self.names(), base["specs"]):
            p0, p1 = mc.p0p1(s, n)
            plan.append((f"frame.{nm}", f"frame.eval {s['tag']} {len(base['cf'])} {ys} {ps} {proto.lst(p0)} {proto.lst(p1)} {cols}"))
            by, ov, _ = orc[nm]
            bk = sorted(by)
            ok = sorted(ov)
            plan.append((f"agg.{nm}", "agg.eval %d 0 %s %s %s %s" % (
                len(base["cf"]), ";".join(proto.strs(k) for k in bk), ",".join(c02mod.x_tok(by[k]) for k in bk),
                ";".join(proto.strs(k) for k in ok) if ok != [()] else proto.strs([]),
                ",".join(c02mod.x_tok(ov[k]) for k in ok))))
        return plan

    AGG_SLOT = {"min": 1, "max": 3, "difference": 5, "ratio": 9}     # coerce variants in the `agg.eval` output
    AGG_DOC = {"min": "min", "max": "max", "difference": "difference/between_groups", "ratio": "ratio/between_groups"}

    def judge(self, base, out, model):
        probs = []
        ncf = len(base["cf"])
        orc = self.oracle(base)
        for nm in self.names():
            by, ov, doc = orc[nm]
            got = out["metrics"][nm]
            for label, tab, want in (("by_group", got["by_group"], by), ("overall", got["overall"], ov)):
                gk = [tuple(k) for k, _ in tab]
                if sorted(gk) != sorted(want):
                    probs.append(Problem("property", f"{nm}.{label}: index {gk[:6]} is not the set of observed combinations "
                                                     f"{sorted(want)[:6]}", "C12.mf.index"))
                    continue
                for k, v in tab:
                    if not mc.same(v, want[tuple(k)], TOL):
                        probs.append(Problem("property", f"{nm}.{label}[{k}] = {v}; the metric on the rows at those POSITIONS "
                                                         f"is {want[tuple(k)]}", "C12.mf.positional"))
                        break
            for ak, tab in got["agg"].items():
                for k, v in tab:
                    w = doc.get(tuple(k), {}).get(self.AGG_DOC[ak])
                    if w is None or not mc.same(v, w, TOL):
                        probs.append(Problem("property", f"{nm}.{ak}()[{k}] = {v}; documented value on the positional zip {w}",
                                             "C12.mf.aggregate"))
                        break
            if model is not None:
                t = model[f"frame.{nm}"].split(" ")
                if len(t) != 4:
                    probs.append(Problem("harness", f"driver output {model[f'frame.{nm}']!r}"))
                    continue
                mby = dict(zip([tuple(k) for k in mc.parse_keys(t[0])], mc.parse_cells(t[1])))
                mov = dict(zip([tuple(k) for k in mc.parse_keys(t[2])], mc.parse_cells(t[3])))
                if ncf == 0:
                    mov = {(): v for v in mov.values()}
                if mby != by or mov != ov:
                    probs.append(Problem("harness", f"{nm}: model {model[f'frame.{nm}'][:160]} vs oracle {by} {ov}"))
                a = model[f"agg.{nm}"].split(" ")
                magg = {}
                if len(a) == 12:
                    for ak, slot in self.AGG_SLOT.items():
                        if a[slot] != "err":
                            ks, vs = a[slot].split("|")
                            magg[ak] = dict(zip([tuple(k) for k in mc.parse_keys(ks)] if ks != "-" else [()],
                                                [mc.model_tok(v) for v in vs.split(",")]))
                if not any(p.kind == "property" for p in probs):
                    for label, tab, mt in (("by_group", got["by_group"], mby), ("overall", got["overall"], mov)):
                        if any(tuple(k) not in mt or not mc.same(v, mt[tuple(k)], TOL) for k, v in tab):
                            probs.append(Problem("correspondence", f"{nm}.{label}: impl {tab[:4]} vs model {list(mt.items())[:4]}",
                                                 "C12.byGroup_perm/model"))
                    for ak, tab in got["agg"].items():
                        mt = magg.get(ak)
                        if mt is None:
                            probs.append(Problem("harness", f"{nm}: model aggregate {ak} missing in {model[f'agg.{nm}'][:120]}"))
                        elif any(not mc.same(v, mt.get(tuple(k) if ncf else (), "missing"), TOL) for k, v in tab):
                            probs.append(Problem("correspondence", f"{nm}.{ak}: impl {tab[:4]} vs model {mt}",
                                                 "C12.aggregate_perm/model"))
        return probs

    # ---- transformations
    def permuted(self, base, perm):
        b = dict(base, y=permute(base["y"], perm), pred=permute(base["pred"], perm),
                 sf=[permute(c, perm) for c in base["sf"]], cf=[permute(c, perm) for c in base["cf"]])
        b["specs"] = [{k: (permute(v, perm) if isinstance(v, list) else v) for k, v in s.items()} for s in base["specs"]]
        return b

    def relabelled(self, base, seed):
        sf, cf, maps = [], [], []
        for j, col in enumerate(base["cf"]):
            c2, mp = relabel_col(col, seed + 17 * j)
            cf.append(c2)
            maps.append(mp)
        for j, col in enumerate(base["sf"]):
            c2, mp = relabel_col(col, seed + 1000 + 17 * j)
            sf.append(c2)
            maps.append(mp)
        return dict(base, sf=sf, cf=cf), maps

    def expect(self, mode, out0, info):
        """what the transformed run must produce, derived from the untransformed run"""
        if mode != "relabel" or "exc" in out0:
            return out0
        maps = [{mc.enc_level(k): mc.enc_level(v) for k, v in mp.items()} for mp in info]

        def mapkey(k):
            return [maps[j][x] for j, x in enumerate(k)]
        o = {"metrics": {}}
        for nm, m in out0["metrics"].items():
            o["metrics"][nm] = {"by_group": sorted([[mapkey(k), v] for k, v in m["by_group"]], key=lambda e: e[0]),
                                "overall": sorted([[mapkey(k), v] for k, v in m["overall"]], key=lambda e: e[0]),
                                "agg": {ak: sorted([[mapkey(k), v] for k, v in t], key=lambda e: e[0]) for ak, t in m["agg"].items()}}
        return o

    def canon(self, out):
        """order-insensitive view used for the relabelling comparison"""
        if "exc" in out:
            return out
        return {"metrics": {nm: {"by_group": sorted(m["by_group"], key=lambda e: e[0]),
                                 "overall": sorted(m["overall"], key=lambda e: e[0]),
                                 "agg": {ak: sorted(t, key=lambda e: e[0]) for ak, t in m["agg"].items()}}
                            for nm, m in out["metrics"].items()}}

    def shrink(self, base):
        n = len(base["y"])
        if n > 2:
            for i in range(n):
                keep = [j for j in range(n) if j != i]
                yield self.permuted(base, keep)
        if len(base["sf"]) > 1:
            yield dict(base, sf=base["sf"][:1])
        if base["cf"]:
            yield dict(base, cf=[])

    def tags(self, base):
        return [f"mf.nsf={len(base['sf'])}", f"mf.ncf={len(base['cf'])}"] + ["mf.metric=" + s["tag"] for s in base["specs"]]


# ===================================================================== entry point: the six named fairness metrics
FAIR_CALLS = []
for _meth in ("between_groups", "to_overall"):
    FAIR_CALLS += [("demographic_parity_difference", _meth, None), ("demographic_parity_ratio", _meth, None),
                   ("equal_opportunity_difference", _meth, None), ("equal_opportunity_ratio", _meth, None),
                   ("equalized_odds_difference", _meth, "worst_case"), ("equalized_odds_ratio", _meth, "worst_case"),
                   ("equalized_odds_difference", _meth, "mean"), ("equalized_odds_ratio", _meth, "mean")]


class FMEntry(EPBase):
    name = "fm"

    def gen_base(self, rng, flavor=None):
        n = rng.choice([2, 3, 4, 5, 6, 8, 10, 12, 14])
        nsf = rng.choice([1, 1, 1, 2])
        return {"y": [rng.randint(0, 1) for _ in range(n)], "pred": [rng.randint(0, 1) for _ in range(n)],
                "sf": gen_features(rng, n, nsf), "w": gen_weights(rng, n) if rng.random() < 0.75 else None}

    def argdom(self, base):
        d = {"y_true": ["list", "nd", "nd2", "ser", "df"], "y_pred": ["list", "nd", "nd2", "ser", "df"],
             "sf": ["list", "nd", "nd2", "ser", "ser_nn", "df", "dict"] if len(base["sf"]) == 1 else ["nd2", "df", "dict"]}
        if base["w"] is not None:
            d["w"] = ["list", "nd", "ser", "df"]
        return d

    def baseline(self, base):
        v = {"y_true": sp("list"), "y_pred": sp("list"), "sf": sp("list") if len(base["sf"]) == 1 else sp("dictlist")}
        if base["w"] is not None:
            v["w"] = sp("list")
        return v

    def run(self, base, var):
        import fairlearn.metrics as fm
        try:
            yt, yp = vec(base["y"], var["y_true"], "yt"), vec(base["pred"], var["y_pred"], "yp")
            sf = feat(base["sf"], SF_NAMES[:len(base["sf"])], var["sf"])
            w = None if base["w"] is None else vec([fl(x) for x in base["w"]], var["w"], "w")
        except Exception as e:  # noqa: BLE001
            return {"crash_build": repr(e)}
        vals = []
        for fn, meth, agg in FAIR_CALLS:
            kw = {"sensitive_features": sf, "method": meth, "sample_weight": w}
            if agg is not None:
                kw["agg"] = agg
            try:
                vals.append(mc.tok(getattr(fm, fn)(yt, yp, **kw)))
            except Exception as e:  # noqa: BLE001  a rejection is a result here
                vals.append("exc:" + type(e).__name__)
        return {"vals": vals}

    def oracle(self, base):
        n = len(base["y"])
        w = [F(1)] * n if base["w"] is None else [F(x) for x in base["w"]]
        rows = [(F(base["y"][i]), F(base["pred"][i]), w[i], F(0)) for i in range(n)]
        cols = [[mc.enc_level(v) for v in c] for c in base["sf"]]
        keys = [tuple(c[i] for c in cols) for i in range(n)]
        res = []
        docs = {}
        for tag in ("selrate", "tpr", "fpr"):
            vs = []
            for k in itertools.product(*[sorted(set(c)) for c in cols]):
                sl = [rows[i] for i in range(n) if keys[i] == k]
                vs.append(mc.oracle_metric(tag, sl) if sl else "nan")
            docs[tag] = c02mod.documented(vs, mc.oracle_metric(tag, rows))
        for meth in ("between_groups", "to_overall"):
            d = {t: docs[t]["difference/" + meth] for t in docs}
            r = {t: docs[t]["ratio/" + meth] for t in docs}
            res += [d["selrate"], r["selrate"], d["tpr"], r["tpr"], x_pymax(d["tpr"], d["fpr"]), x_pymin(r["tpr"], r["fpr"]),
                    x_mean([d["tpr"], d["fpr"]]), x_mean([r["tpr"], r["fpr"]])]
        return res

    def plan(self, base, out):
        n = len(base["y"])
        w = [F(1)] * n if base["w"] is None else [F(x) for x in base["w"]]
        cols = " ".join(proto.strs([mc.enc_level(v) for v in c]) for c in base["sf"])
        return [("fair", f"perm.fair {proto.lst(base['y'])} {proto.lst(base['pred'])} {proto.lst(w)} {cols}")]

    def judge(self, base, out, model):
        probs = []
        want = self.oracle(base)
        for (fn, meth, agg), v, w in zip(FAIR_CALLS, out["vals"], want):
            if not mc.same(v, w, TOL):
                probs.append(Problem("property", f"{fn}(method={meth}{', agg=' + agg if agg else ''}) = {v}; first-principles value "
                                                 f"on the positional zip {w}", "C12.fm.positional"))
        if model is not None:
            mt = model["fair"].split(" ")
            if len(mt) != 16 or "err" in mt:
                probs.append(Problem("harness", f"perm.fair answered {model['fair'][:120]}"))
            else:
                mv = [mc.model_tok(t) for t in mt]
                if mv != want:
                    probs.append(Problem("harness", f"model {mt} vs oracle {[c02mod.x_tok(x) for x in want]}"))
                elif not probs and any(not mc.same(v, m, TOL) for v, m in zip(out["vals"], mv)):
                    probs.append(Problem("correspondence", f"impl {out['vals']} vs model {mt}", "C12.fairness_perm/model"))
        return probs

    def permuted(self, base, perm):
        return dict(base, y=permute(base["y"], perm), pred=permute(base["pred"], perm),
                    sf=[permute(c, perm) for c in base["sf"]], w=None if base["w"] is None else permute(base["w"], perm))

    def relabelled(self, base, seed):
        sf, maps = [], []
        for j, col in enumerate(base["sf"]):
            c2, mp = relabel_col(col, seed + 17 * j)
            sf.append(c2)
            maps.append(mp)
        return dict(base, sf=sf), maps

    def expect(self, mode, out0, info):
        return out0          # scalars: unchanged by permutation and by relabelling

    def canon(self, out):
        return out

    def shrink(self, base):
        n = len(base["y"])
        if n > 2:
            for i in range(n):
                yield self.permuted(base, [j for j in range(n) if j != i])
        if len(base["sf"]) > 1:
            yield dict(base, sf=base["sf"][:1])
        if base["w"] is not None:
            yield dict(base, w=None)

    def tags(self, base):
        return [f"fm.nsf={len(base['sf'])}", "fm.weighted" if base["w"] is not None else "fm.unweighted"]


# ===================================================================== entry point: constraint moments
PARITY = ("dp", "tpr", "fpr", "eo", "erp")


def predictor_of(hs, spec, X):
    arr = np.array([fl(v) for v in hs])
    c = spec["c"]
    if c == "nd":
        return lambda X_: arr
    if c == "nd2":
        return lambda X_: arr.reshape(-1, 1)
    if c == "list":
        return lambda X_: list(arr)
    if c == "ser":
        return lambda X_: pd.Series(arr)
    if c == "ser_x":      # what a pandas-aware estimator returns: labelled like the X it was given
        return lambda X_: pd.Series(arr, index=X_.index) if isinstance(X_, pd.DataFrame) else pd.Series(arr)
    raise KeyError(c)


def lam_value(j, seed):
    return F((5 * j + seed) % 9, 4)


class MomEntry(EPBase):
    name = "mom"
    flavors = ("ctl", "noctl")

    def gen_base(self, rng, flavor=None):
        kind = rng.choice(["dp", "tpr", "fpr", "eo", "eo", "erp"] + ([] if flavor == "ctl" else ["err", "bgl"]))
        n = rng.choice([3, 4, 5, 6, 8, 10, 12])
        ng = rng.choice([2, 2, 3])
        gtype = rng.choice(["str", "str", "int"])
        names = ["a", "b", "c"][:ng] if gtype == "str" else [3, 9, 7][:ng]   # single digits: str order = int order
        g = [rng.choice(names) for _ in range(n)]
        g[0], g[1] = names[0], names[1]
        base = {"kind": kind, "g": g, "gtype": gtype, "c": None, "lamseed": rng.randrange(9),
                "ratio": rng.choice(["1", "1", "1/2", "4/5"]), "eps": rng.choice(["1/100", "1/8", "1/4"])}
        if kind == "bgl":
            base["loss"] = rng.choice(["square", "absolute"])
            base["lo"], base["hi"] = rng.choice(c06mod.LOSS_RANGES)
            base["y"] = [str(F(rng.randint(-8, 16), 8)) for _ in range(n)]
            base["h"] = [str(F(rng.randint(-8, 16), 8)) for _ in range(n)]
        else:
            y = [rng.randint(0, 1) for _ in range(n)]
            y[0], y[1] = 0, 1
            base["y"] = y
            base["h"] = [str(rng.randint(0, 1)) for _ in range(n)] if rng.random() < 0.4 else \
                [str(F(rng.randint(0, 8), 8)) for _ in range(n)]
        if kind == "err":
            base["fp"], base["fn"] = str(F(rng.randint(1, 8), 4)), str(F(rng.randint(1, 8), 4))
        if kind in PARITY and (flavor == "ctl" or (flavor is None and rng.random() < 0.5)):
            cn = rng.sample(["x", "y", "k"], rng.choice([1, 2, 2]))
            base["c"] = [rng.choice(cn) for _ in range(n)]
        return base

    def argdom(self, base):
        yd = ["list", "nd", "nd2", "ser", "df"]
        d = {"X": ["nd", "df"], "y": yd, "sf": ["list", "nd", "nd2", "ser", "ser_cat", "df"],
             "pred": ["nd", "nd2", "list", "ser", "ser_x"]}
        if base["c"] is not None:
            d["cf"] = ["list", "nd", "nd2", "ser", "df"]
        return d

    def baseline(self, base):
        v = {"X": sp("nd"), "y": sp("list"), "sf": sp("list"), "pred": sp("nd")}
        if base["c"] is not None:
            v["cf"] = sp("list")
        return v

    def _moment(self, base):
        import fairlearn.reductions as red
        k = base["kind"]
        if k in PARITY:
            cls = getattr(red, c06mod.MOMENTS[k])
            if F(base["ratio"]) == 1:
                return cls(difference_bound=fl(base["eps"]))
            return cls(ratio_bound=fl(base["ratio"]), ratio_bound_slack=fl(base["eps"]))
        if k == "err":
            return red.ErrorRate(costs={"fp": fl(base["fp"]), "fn": fl(base["fn"])})
        loss = red.SquareLoss(fl(base["lo"]), fl(base["hi"])) if base["loss"] == "square" else red.AbsoluteLoss(fl(base["lo"]), fl(base["hi"]))
        return red.BoundedGroupLoss(loss, upper_bound=fl(base["eps"]))

    def run(self, base, var):
        k = base["kind"]
        n = len(base["y"])
        try:
            m = self._moment(base)
            X = xmat(range(n), var["X"])
            yv = [fl(v) for v in base["y"]] if k == "bgl" else list(base["y"])
            kw = {"sensitive_features": vec(base["g"], var["sf"], "sf")}
            if base["c"] is not None:
                kw["control_features"] = vec(base["c"], var["cf"], "cf")
            m.load_data(X, vec(yv, var["y"], "y"), **kw)
            pred = predictor_of(base["h"], var["pred"], X)
            gam = m.gamma(pred)
            out = {}
            if k in PARITY:
                out["index"] = c06mod.index_keys(m.index)
                out["gamma_index"] = c06mod.index_keys(gam.index)
                want, _ = c06mod.spec_parity(k, list(base["y"]), [str(v) for v in base["g"]],
                                             None if base["c"] is None else list(base["c"]), [F(0)] * n, F(base["ratio"]))
                order = c06mod.spec_order(want.keys())
                lam = {key: lam_value(j, base["lamseed"]) for j, key in enumerate(order)}
                lv = pd.Series([float(lam.get(tuple(kk), 0)) for kk in out["index"]], index=m.index)
                out["bound"] = [float(v) for v in m.bound().values]
                out["sw"] = [float(v) for v in np.asarray(m.signed_weights(lv)).reshape(-1)]
            elif k == "err":
                out["index"] = [str(x) for x in m.index]
                out["gamma_index"] = [str(x) for x in gam.index]
                out["sw"] = [float(v) for v in np.asarray(m.signed_weights()).reshape(-1)]
                out["sw_lam"] = [float(v) for v in np.asarray(m.signed_weights(pd.Series([0.75], index=["all"]))).reshape(-1)]
            else:
                out["index"] = [str(x) for x in m.index]
                out["gamma_index"] = [str(x) for x in gam.index]
                lv = pd.Series([float(lam_value(j, base["lamseed"])) for j in range(len(m.index))], index=m.index)
                out["bound"] = [float(v) for v in m.bound().values]
                out["sw"] = [float(v) for v in np.asarray(m.signed_weights(lv)).reshape(-1)]
            out["gamma"] = [mc.tok(v) for v in gam.values]
            return out
        except Exception as e:  # noqa: BLE001  a rejection / failure is a result here
            return exc_token(e)

    # ---- first principles
    def oracle(self, base):
        k = base["kind"]
        n = len(base["y"])
        hs = [F(v) for v in base["h"]]
        gs = [str(v) for v in base["g"]]
        if k in PARITY:
            ys = list(base["y"])
            cs = None if base["c"] is None else list(base["c"])
            ratio = F(base["ratio"])
            want, _ = c06mod.spec_parity(k, ys, gs, cs, hs, ratio)
            order = c06mod.spec_order(want.keys())
            lam = [lam_value(j, base["lamseed"]) for j in range(len(order))]

            def lg(h):
                w, _ = c06mod.spec_parity(k, ys, gs, cs, h, ratio)
                return sum(l * w[key] for l, key in zip(lam, order))
            base_v = lg(hs)
            sw = []
            for i in range(n):     # signed weight = -n * d(lambda.gamma)/dh_i  (gamma is affine in h)
                h2 = list(hs)
                h2[i] = hs[i] + 1
                sw.append(-n * (lg(h2) - base_v))
            return {"index": [list(key) for key in order], "gamma": [want[key] for key in order],
                    "bound": [F(base["eps"])] * len(order), "sw": sw, "lam": lam}
        if k == "err":
            fp, fn = F(base["fp"]), F(base["fn"])
            ys = [F(v) for v in base["y"]]
            sw = [fn * y - fp * (1 - y) for y in ys]
            return {"index": ["all"], "gamma": [c06mod.spec_err(fp, fn, ys, hs)], "sw": sw, "sw_lam": [F(3, 4) * x for x in sw]}
        ys = [F(v) for v in base["y"]]
        want = c06mod.spec_bgl(base["loss"], F(base["lo"]), F(base["hi"]), ys, gs, hs)
        order = sorted(want)
        lam = {g: lam_value(j, base["lamseed"]) for j, g in enumerate(order)}
        cnt = {g: gs.count(g) for g in order}
        return {"index": order, "gamma": [want[g] for g in order], "bound": [F(base["eps"])] * len(order),
                "sw": [lam[g] * n / cnt[g] for g in gs], "lam": [lam[g] for g in order]}

    def plan(self, base, out):
        k = base["kind"]
        hs = proto.lst([F(v) for v in base["h"]])
        gs = proto.strs([str(v) for v in base["g"]])
        orc = self.oracle(base)
        if k in PARITY:
            data = f"{proto.lst(base['y'])} {gs} {'none' if base['c'] is None else proto.strs(base['c'])}"
            r = proto.rat(F(base["ratio"]))
            return [("index", f"mom.index {k} spec {data}"), ("gamma", f"mom.gamma {k} spec {r} {data} {hs}"),
                    ("bound", f"mom.bound {k} spec {proto.rat(F(base['eps']))} {data}"),
                    ("sw", f"mom.sw {k} spec {r} {data} {proto.lst(orc['lam'])}")]
        if k == "err":
            ys = proto.lst([F(v) for v in base["y"]])
            return [("gamma", f"mom.err.gamma {base['fp']} {base['fn']} {ys} {hs}"),
                    ("sw", f"mom.err.sw {base['fp']} {base['fn']} {ys} none"),
                    ("sw_lam", f"mom.err.sw {base['fp']} {base['fn']} {ys} 3/4")]
        ys = proto.lst([F(v) for v in base["y"]])
        return [("index", f"mom.bgl.index {gs}"), ("gamma", f"mom.bgl.gamma {base['loss']} {base['lo']} {base['hi']} {ys} {gs} {hs}"),
                ("sw", f"mom.bgl.sw {ys} {gs} {proto.lst(orc['lam'])}")]

    def judge(self, base, out, model):
        probs = []
        k = base["kind"]
        orc = self.oracle(base)
        idx = [list(x) for x in out["index"]] if k in PARITY else out["index"]
        if sorted(map(str, idx)) != sorted(map(str, orc["index"])):
            probs.append(Problem("property", f"index {idx[:6]} is not the set of observed entries {orc['index'][:6]} of the "
                                             f"positional zip", "C12.mom.index"))
            return probs
        if out["gamma_index"] != out["index"]:
            probs.append(Problem("property", "gamma() is not indexed by Moment.index", "C12.mom.index"))
        if idx != orc["index"]:
            probs.append(Problem("correspondence", f"index order {idx[:4]} differs from sorted order", "C12.moment_index_perm/model"))
        pos = {str(key): j for j, key in enumerate(orc["index"])}
        for j, key in enumerate(idx):
            w = orc["gamma"][pos[str(key)]]
            if not mc.same(out["gamma"][j], w, TOL):
                probs.append(Problem("property", f"gamma[{key}] = {out['gamma'][j]}; value on the positional zip of rows and "
                                                 f"predictions {w}", "C12.mom.gamma_positional"))
                break
        for fld in ("sw", "sw_lam", "bound"):
            if fld in orc:
                got = out[fld]
                wl = orc[fld]
                if fld == "bound":
                    wl = [wl[pos[str(key)]] for key in idx]
                if len(got) != len(wl) or any(not mc.same(a, b, TOL) for a, b in zip(got, wl)):
                    probs.append(Problem("property", f"{fld} = {got[:8]}; row-aligned first-principles value {[str(x) for x in wl[:8]]}",
                                         "C12.mom.signed_weights_row_aligned" if fld != "bound" else "C12.mom.bound"))
        if model is not None:
            bad = [t for t, v in model.items() if v == "bad-op"]
            if bad:
                return probs + [Problem("harness", f"driver rejected {bad}")]
            mok = True
            if "index" in model:
                mi = [list(x) for x in c06mod.CHECK._p_keys(model["index"])] if k in PARITY else proto.p_strs(model["index"])
                mok = mok and mi == orc["index"]
            mg = proto.p_list(model["gamma"]) if k != "err" else [proto.p_rat(model["gamma"])]
            mok = mok and mg == orc["gamma"] and proto.p_list(model["sw"]) == orc["sw"]
            if "sw_lam" in model:
                mok = mok and proto.p_list(model["sw_lam"]) == orc["sw_lam"]
            if "bound" in model:
                mok = mok and proto.p_list(model["bound"]) == orc["bound"]
            if not mok:
                probs.append(Problem("harness", f"model {model} differs from the oracle {orc}"))
        return probs

    # ---- transformations
    def permuted(self, base, perm):
        b = dict(base)
        for key in ("y", "g", "h", "c"):
            if base.get(key) is not None:
                b[key] = permute(base[key], perm)
        return b

    def relabelled(self, base, seed):
        g2, mg = relabel_col(base["g"], seed)
        b = dict(base, g=g2)
        mcn = None
        if base["c"] is not None:
            c2, mcn = relabel_col(base["c"], seed + 5)
            b["c"] = c2
        return b, [mg, mcn, base]

    def expect(self, mode, out0, info):
        if "exc" in out0:
            return out0
        o = dict(out0)
        if mode == "perm":
            for fld in ("sw", "sw_lam"):
                if fld in o:
                    o[fld] = permute(o[fld], info)
            return o
        if mode != "relabel":
            return o
        mg, mcn, base = info
        mg = {str(k): str(v) for k, v in mg.items()}
        if base["kind"] in PARITY:
            evmap = {}
            if mcn is not None:
                for y, c in zip(base["y"], base["c"]):
                    evmap[c06mod.spec_event(base["kind"], y, c)] = c06mod.spec_event(base["kind"], y, mcn[c])
            ren = [[s, evmap.get(e, e), mg[g]] for s, e, g in out0["index"]]
            o["index"] = ren
            o["gamma_index"] = [[s, evmap.get(e, e), mg[g]] for s, e, g in out0["gamma_index"]]
        elif base["kind"] == "bgl":
            o["index"] = [mg[g] for g in out0["index"]]
            o["gamma_index"] = [mg[g] for g in out0["gamma_index"]]
        return o

    def canon(self, out):
        """index-order-insensitive view: entries sorted by key (relabelling changes the sorted order; the multiplier of
        an entry is tied to its POSITION in the sorted index, so signed weights are compared in the perm mode only)"""
        if "exc" in out:
            return out
        o = {k: v for k, v in out.items() if k not in ("sw", "sw_lam")}
        order = sorted(range(len(out["index"])), key=lambda j: str(out["index"][j]))
        for fld in ("index", "gamma_index", "gamma", "bound"):
            if fld in out:
                o[fld] = [out[fld][j] for j in order]
        return o

    def shrink(self, base):
        n = len(base["y"])
        if n > 3:
            for i in range(n):
                b = self.permuted(base, [j for j in range(n) if j != i])
                if len(set(b["g"])) >= 2 and (base["kind"] == "bgl" or len(set(b["y"])) == 2):
                    yield b
        if base["c"] is not None:
            yield dict(base, c=None)

    def tags(self, base):
        return [f"mom.kind={base['kind']}", f"mom.control={'yes' if base['c'] is not None else 'no'}", f"mom.gtype={base['gtype']}"]


# ===================================================================== entry points: ExponentiatedGradient / GridSearch
class RecLearner(ExactLearner):
    """ExactLearner that also records the feature column it was given and can answer like a pandas-aware estimator
    (`out='ser_x'`: predictions as a Series labelled like the X passed to predict)"""

    def __init__(self, kind="all", tag=None, out="nd"):
        super().__init__(kind=kind, tag=tag)
        self.out = out

    def fit(self, X, y, sample_weight=None):
        super().fit(X, y, sample_weight)
        if self.tag is not None:
            a = np.asarray(X)
            RECORDS[self.tag][-1]["x"] = [float(v) for v in (a if a.ndim == 1 else a[:, 0])]
        return self

    def predict(self, X):
        p = super().predict(X)
        if self.out == "ser_x" and isinstance(X, pd.DataFrame):
            return pd.Series(p, index=X.index)
        return p


RED_MOMENTS = {"DP": "dp", "TPR": "tpr", "FPR": "fpr", "EO": "eo", "ERP": "erp"}


class RedEntry(EPBase):
    """common parts of eg / gs"""
    modes = ("container",)

    def gen_data(self, rng):
        while True:
            n = rng.choice([5, 6, 7, 8, 9, 10, 12])
            k = rng.choice([2, 3, 3, 4])
            groups = rng.sample(list("abc"), rng.choice([2, 2, 3]))
            x = [rng.randrange(k) for _ in range(n)]
            y = [rng.randint(0, 1) for _ in range(n)]
            g = [rng.choice(groups) for _ in range(n)]
            for i, gg in enumerate(groups):
                g[i] = gg
            if len(set(y)) < 2 or len(set(x)) < 2:
                continue
            # every group has both labels: keeps GridSearch away from the F6 basis shape (C09's business)
            if any(len({yy for yy, gi in zip(y, g) if gi == gg}) < 2 for gg in groups):
                continue
            return {"x": x, "y": y, "g": g, "moment": rng.choice(["DP", "TPR", "FPR", "EO", "EO", "ERP"]),
                    "ratio": rng.choice([None, None, "1/2", "4/5"]), "eps": rng.choice(["1/100", "1/8", "1/4"]),
                    "lkind": rng.choice(["all", "all", "threshold"])}

    def argdom(self, base):
        return {"X": ["nd", "df"], "y": ["list", "nd", "nd2", "ser", "df"], "sf": ["list", "nd", "nd2", "ser", "ser_cat", "df"],
                "lout": ["nd", "ser_x"]}

    def baseline(self, base):
        return {"X": sp("nd"), "y": sp("list"), "sf": sp("list"), "lout": sp("nd")}

    def moment(self, base):
        import fairlearn.reductions as red
        cls = getattr(red, c06mod.MOMENTS[RED_MOMENTS[base["moment"]]])
        if base["ratio"] is None:
            return cls(difference_bound=fl(base["eps"]))
        return cls(ratio_bound=fl(base["ratio"]), ratio_bound_slack=fl(base["eps"]))

    def problem(self, base):
        return ro.Problem(base["moment"], base["y"], base["g"], ratio=F(base["ratio"]) if base["ratio"] else F(1),
                          eps=F(base["eps"]))

    def describe_predictors(self, base, var, predictors, X):
        from sklearn.dummy import DummyClassifier
        vals = sorted(set(base["x"]))
        Xt = xmat(vals, sp(var["X"]["c"], var["X"].get("i", "default"), var["X"].get("s", 0) + 1))
        return [{"dummy": isinstance(p, DummyClassifier),
                 "train": [int(v) for v in np.asarray(p.predict(X)).reshape(-1)],
                 "vals": [int(v) for v in np.asarray(p.predict(Xt)).reshape(-1)]} for p in predictors]

    def exact_weights(self, base, out):
        """per predictor: exact signed weights for its multiplier vector (rationals of the floats), in row order"""
        P = self.problem(base)
        idx = [tuple(k) for k in out["lam_index"]]
        res = []
        for col in out["lam"]:
            lam = {k: F(v) for k, v in zip(idx, col)}
            res.append(([lam.get(k, F(0)) for k in P.index], P.signed_weights(lam)))
        return P, res

    def plan(self, base, out):
        if "exc" in out:
            return []
        P, ws = self.exact_weights(base, out)
        kind = RED_MOMENTS[base["moment"]]
        data = f"{proto.lst(base['y'])} {proto.strs(base['g'])} none"
        r = proto.rat(P.ratio)
        plan = []
        for j, ((lam, w), p) in enumerate(zip(ws, out["predictors"])):
            if p["dummy"]:
                continue
            plan.append((f"sw.{j}", f"mom.sw {kind} spec {r} {data} {proto.lst(lam)}"))
            plan.append((f"obj.{j}", f"mom.err.sw 1 1 {proto.lst([F(v) for v in base['y']])} none"))
            plan.append((f"rel.{j}", f"mom.relabel {proto.lst(w)}"))
        return plan

    def normalise(self, wr, n):
        return wr

    def judge_records(self, base, out, model, ordered):
        probs = []
        P, ws = self.exact_weights(base, out)
        if sorted(map(tuple, out["lam_index"])) != sorted(P.index):
            return [Problem("property", f"multiplier index {out['lam_index'][:4]} is not the set of observed entries "
                                        f"{P.index[:4]} of the positional zip", "C12.red.index")]
        rec = list(out["records"])
        xs = [float(v) for v in base["x"]]
        for r in rec:
            if r.get("x") != xs:
                probs.append(Problem("property", f"the base learner was fitted on feature rows {r.get('x')} instead of {xs}",
                                     "C12.red.learner_rows"))
                break
        for j, ((lam, w), p) in enumerate(zip(ws, out["predictors"])):
            yr, wr = ro.relabel(w)
            wn = self.normalise(wr, P.n)
            live = [i for i in range(P.n) if wn[i] > LIVE_EPS]
            if p["dummy"]:
                continue

            def matches(r):
                return len(r["y"]) == P.n and all(r["y"][i] == yr[i] for i in live) and \
                    all(abs(r["w"][i] - float(wn[i])) <= LEARNER_TOL * max(1.0, abs(float(wn[i]))) for i in range(P.n))
            cand = [rec.pop(0)] if (ordered and rec) else rec
            if not any(matches(r) for r in cand):
                probs.append(Problem("property", f"predictor {j}: no call of the base learner received the relabelled / reweighted "
                                                 f"rows of its multiplier vector in POSITIONAL order: expected labels {yr} weights "
                                                 f"{[round(float(v), 6) for v in wn]}; learner saw "
                                                 f"{[(r['y'], [round(v, 6) for v in r['w']]) for r in cand[:2]]}",
                                     "C12.red.learner_sees_positional_rows"))
                break
            if model is not None:
                msw, mobj, mrel = model.get(f"sw.{j}"), model.get(f"obj.{j}"), model.get(f"rel.{j}")
                if "bad-op" in (msw, mobj, mrel) or None in (msw, mobj, mrel):
                    probs.append(Problem("harness", f"driver rejected the lines of predictor {j}"))
                    continue
                mw = [a + b for a, b in zip(proto.p_list(msw), proto.p_list(mobj))]
                t = mrel.split(" ")
                if mw != w or proto.p_list(t[0]) != yr or proto.p_list(t[1]) != wr:
                    probs.append(Problem("harness", f"predictor {j}: model weights {mw[:4]} / relabel differ from the oracle {w[:4]}"))
        return probs


class EGEntry(RedEntry):
    name = "eg"

    def gen_base(self, rng, flavor=None):
        b = self.gen_data(rng)
        b["max_iter"] = rng.choice([3, 4, 6])
        return b

    def normalise(self, wr, n):
        s = sum(wr)
        return [n * x / s for x in wr] if s != 0 else wr

    def run(self, base, var):
        import fairlearn.reductions as red
        tag = f"c12-{os.getpid()}-{next(_COUNTER)}"
        try:
            X = xmat(base["x"], var["X"])
            eg = red.ExponentiatedGradient(RecLearner(base["lkind"], tag, var["lout"]["c"]), constraints=self.moment(base),
                                           eps=0.05, max_iter=base["max_iter"], nu=1e-6, eta0=2.0)
            eg.fit(X, vec(base["y"], var["y"], "y"), sensitive_features=vec(base["g"], var["sf"], "sf"))
            lam = eg.lambda_vecs_
            out = {"lam_index": [c06mod.index_keys([t])[0] for t in lam.index],
                   "lam": [[float(v) for v in lam[c].tolist()] for c in lam.columns],
                   "weights": [float(eg.weights_[c]) for c in lam.columns],
                   "predictors": self.describe_predictors(base, var, list(eg.predictors_), X),
                   "best_gap": float(eg.best_gap_), "last_iter": int(eg.last_iter_), "best_iter": int(eg.best_iter_),
                   "n_oracle_calls": int(eg.n_oracle_calls_),
                   "pmf1": [float(v) for v in np.asarray(eg._pmf_predict(X))[:, 1]]}
            out["records"] = RECORDS.pop(tag, [])
            return out
        except Exception as e:  # noqa: BLE001
            RECORDS.pop(tag, None)
            return exc_token(e)

    def judge(self, base, out, model):
        probs = self.judge_records(base, out, model, ordered=False)
        # the reported pmf is the weights_-mixture of the predictors' training predictions
        n = len(base["y"])
        mix = [sum(w * p["train"][i] for w, p in zip(out["weights"], out["predictors"])) for i in range(n)]
        if any(abs(a - b) > MIX_TOL for a, b in zip(mix, out["pmf1"])):
            probs.append(Problem("property", f"_pmf_predict {out['pmf1'][:6]} is not the weights_ mixture {mix[:6]} of the "
                                             f"predictors at the same POSITIONS", "C12.eg.pmf_positional"))
        return probs

    def tags(self, base):
        return [f"eg.moment={base['moment']}", f"eg.iters={base['max_iter']}"]


class GSEntry(RedEntry):
    name = "gs"

    def gen_base(self, rng, flavor=None):
        b = self.gen_data(rng)
        b["grid_size"] = rng.choice([3, 4, 5, 7, 9])
        b["grid_limit"] = rng.choice(["1", "2", "3"])
        b["cw"] = rng.choice(["1/4", "1/2", "3/4"])
        return b

    def run(self, base, var):
        import fairlearn.reductions as red
        tag = f"c12-{os.getpid()}-{next(_COUNTER)}"
        try:
            X = xmat(base["x"], var["X"])
            gs = red.GridSearch(RecLearner(base["lkind"], tag, var["lout"]["c"]), self.moment(base),
                                constraint_weight=fl(base["cw"]), grid_size=base["grid_size"], grid_limit=fl(base["grid_limit"]))
            gs.fit(X, vec(base["y"], var["y"], "y"), sensitive_features=vec(base["g"], var["sf"], "sf"))
            lam = gs.lambda_vecs_
            gm = gs.gammas_
            out = {"lam_index": [c06mod.index_keys([t])[0] for t in lam.index],
                   "lam": [[float(v) for v in lam[c].tolist()] for c in lam.columns],
                   "predictors": self.describe_predictors(base, var, list(gs.predictors_), X),
                   "objectives": [float(v) for v in gs.objectives_],
                   "gam_index": [c06mod.index_keys([t])[0] for t in gm.index],
                   "gammas": [[mc.tok(v) for v in gm[c].tolist()] for c in gm.columns],
                   "best_idx": int(gs.best_idx_),
                   "predict": [int(v) for v in np.asarray(gs.predict(X)).reshape(-1)]}
            out["records"] = RECORDS.pop(tag, [])
            return out
        except Exception as e:  # noqa: BLE001
            RECORDS.pop(tag, None)
            return exc_token(e)

    def judge(self, base, out, model):
        probs = self.judge_records(base, out, model, ordered=True)
        P = self.problem(base)
        gidx = [tuple(k) for k in out["gam_index"]]
        for j, p in enumerate(out["predictors"]):
            gm, ob = P.gamma(p["train"]), P.objective(p["train"])
            if not mc.same(out["objectives"][j], ob, TOL):
                probs.append(Problem("property", f"objectives_[{j}] = {out['objectives'][j]}; error of predictor {j} on the "
                                                 f"positional zip {ob}", "C12.gs.records_positional"))
                break
            bad = [k for k, v in zip(gidx, out["gammas"][j]) if k not in gm or not mc.same(v, gm[k], TOL)]
            if bad:
                probs.append(Problem("property", f"gammas_[{j}]{list(bad[0])} differs from the constraint violation of predictor "
                                                 f"{j} on the positional zip", "C12.gs.records_positional"))
                break
        return probs

    def expected_rejection(self, base, out0):
        """finding F12 of C09: some grid point makes every signed weight exactly 0 and sklearn rejects the weights"""
        if out0.get("exc") != "ValueError":
            return False
        P = self.problem(base)
        lams = P.grid(base["grid_size"], F(base["grid_limit"])) or []
        return any(all(x == 0 for x in P.signed_weights(lam)) for lam in lams)

    def tags(self, base):
        return [f"gs.moment={base['moment']}", f"gs.grid={base['grid_size']}"]


# ===================================================================== entry point: ThresholdOptimizer
def _scorer(out_style):
    from sklearn.base import BaseEstimator

    class PassThrough(BaseEstimator):
        """prefit scorer: `predict` hands back the score column — as an ndarray, or (out='ser_x') as the column of the
        DataFrame it was given, i.e. a Series carrying the caller's index labels"""

        def __init__(self, out="nd"):
            self.out = out

        def fit(self, X, y=None):
            self.fitted_ = True
            return self

        def predict(self, X):
            if self.out == "ser_x" and isinstance(X, pd.DataFrame):
                return X.iloc[:, 0]
            return np.asarray(X, dtype=float)[:, 0]
    return PassThrough(out_style).fit(None)


class TOEntry(EPBase):
    name = "to"

    def gen_base(self, rng, flavor=None):
        while True:
            c = tc.gen_case(rng, "quick", small=True)
            if tc.in_quantifier(c) and len(c["rows"]) <= 24:
                break
        c.pop("container", None)
        ng = len({r[0] for r in c["rows"]})
        c["gnames"] = rng.choice(["str", "int"])
        m = rng.choice([3, 5, 8])
        c["prows"] = [[rng.randrange(ng), str(F(rng.choice(c["rows"])[2]) + rng.choice([0, 0, F(1, 16), -F(1, 16)]))] for _ in range(m)]
        return c

    def argdom(self, base):
        return {"X": ["nd", "df"], "y": ["list", "nd", "nd2", "ser", "df", "df0"], "sf": ["list", "nd", "nd2", "ser", "ser_cat", "df"],
                "sout": ["nd", "ser_x"], "pX": ["nd", "df"], "psf": ["list", "nd", "nd2", "ser", "ser_cat", "df"]}

    def baseline(self, base):
        return {"X": sp("nd"), "y": sp("list"), "sf": sp("list"), "sout": sp("nd"), "pX": sp("nd"), "psf": sp("list")}

    def extra_variants(self, rng, base):
        # labelled and unlabelled single-column y frames for every constraint (equalized odds sums the label column)
        return [dict(self.baseline(base), y=sp(c, rng.choice(IDX_KINDS), rng.randrange(10 ** 6))) for c in ("df", "df0")]

    def run(self, base, var):
        from fairlearn.postprocessing import ThresholdOptimizer
        rows = base["rows"]
        try:
            X = xmat([F(r[2]) for r in rows], var["X"], "score")
            sf = vec([tc.gname(base, r[0]) for r in rows], var["sf"], "sf")
            to = ThresholdOptimizer(estimator=_scorer(var["sout"]["c"]), prefit=True, predict_method="predict",
                                    constraints=base["constraint"], objective=base["objective"],
                                    grid_size=base["grid"], flip=base["flip"])
            to.fit(X, vec([int(r[1]) for r in rows], var["y"], "label"), sensitive_features=sf)
            d = to.interpolated_thresholder_.interpolation_dict
            rules = {}
            for g in sorted({r[0] for r in rows}):
                b = d[tc.gname(base, g)]
                rules[str(g)] = {"p0": float(b.p0), "p1": float(b.p1),
                                 "op0": [b.operation0.operator, tc._thr(b.operation0.threshold)],
                                 "op1": [b.operation1.operator, tc._thr(b.operation1.threshold)],
                                 "p_ignore": float(b.p_ignore) if "p_ignore" in b else None,
                                 "const": float(b.prediction_constant) if "prediction_constant" in b else None}
            pmf = to._pmf_predict(X, sensitive_features=sf)
            pX = xmat([F(r[1]) for r in base["prows"]], var["pX"], "score")
            psf = vec([tc.gname(base, r[0]) for r in base["prows"]], var["psf"], "sf")
            ppmf = to._pmf_predict(pX, sensitive_features=psf)
            pred = to.predict(pX, sensitive_features=psf, random_state=7)
            return {"rules": rules, "keys": sorted(str(k) for k in d.keys()),
                    "pmf0": [float(v) for v in pmf[:, 0]], "pmf1": [float(v) for v in pmf[:, 1]],
                    "ppmf1": [float(v) for v in ppmf[:, 1]], "pred": [int(v) for v in np.asarray(pred).reshape(-1)]}
        except Exception as e:  # noqa: BLE001
            return exc_token(e)

    def _i_impl(self, base, out):
        try:
            gs, _ = tc.groups_of(base)
            return int(round(tc.impl_view(base, out)[gs[0]]["ex"] * base["grid"]))
        except Exception:  # noqa: BLE001
            return None

    def plan(self, base, out):
        i = self._i_impl(base, out) if "rules" in out else None
        return [(f"thr.{j}", ln) for j, ln in enumerate(tc.model_lines(base, i))]

    def judge(self, base, out, model):
        mo = None if model is None else [model[k] for k in sorted(model, key=lambda s: int(s.split(".")[1]))]
        probs, ctx = c04mod.common_judge(base, out, mo, "C12.to")
        # predict-time rows: the rule applied to a row is the rule of the group at the same POSITION
        for j, (g, s) in enumerate(base["prows"]):
            want = float(tc.prob_of_rule(out["rules"][str(g)], F(s)))
            if abs(out["ppmf1"][j] - want) > MIX_TOL:
                probs.append(Problem("property", f"_pmf_predict row {j} (group {g}, score {s}) = {out['ppmf1'][j]}; the fitted rule "
                                                 f"of that group gives {want}", "C12.to.predict_positional"))
                break
        return probs

    # ---- transformations
    def permuted(self, base, perm):
        return dict(base, rows=permute(base["rows"], perm))

    def relabelled(self, base, seed):
        gs = sorted({r[0] for r in base["rows"]})
        rs = random.Random(seed)
        new = list(gs)
        while len(gs) > 1 and new == gs:
            rs.shuffle(new)
        mp = dict(zip(gs, new))
        return dict(base, rows=[[mp[r[0]], r[1], r[2]] for r in base["rows"]],
                    prows=[[mp[r[0]], r[1]] for r in base["prows"]]), mp

    def expect(self, mode, out0, info):
        if "exc" in out0:
            return out0
        o = dict(out0)
        if mode == "perm":
            o["pmf0"], o["pmf1"] = permute(out0["pmf0"], info), permute(out0["pmf1"], info)
        elif mode == "relabel":
            o["rules"] = {str(info[int(g)]): r for g, r in out0["rules"].items()}
        return o

    def canon(self, out):
        if "exc" in out:
            return out
        return {k: v for k, v in out.items() if k != "keys"}

    def shrink(self, base):
        for c in tc.shrink_case(dict(base, container="ndarray")):
            c.pop("container", None)
            c["prows"] = [r for r in base["prows"] if r[0] in {x[0] for x in c["rows"]}] or base["prows"][:0]
            if c["prows"]:
                yield c
        if len(base["prows"]) > 1:
            yield dict(base, prows=base["prows"][:1])

    def tags(self, base):
        return [f"to.constraint={base['constraint']}", f"to.groups={len({r[0] for r in base['rows']})}", f"to.gnames={base['gnames']}"]


# ===================================================================== entry point: reductions with control features
class RedCFEntry(EPBase):
    """ExponentiatedGradient / GridSearch fitted with `control_features=` (accepted by the parity moments' load_data) and
    asked to predict on a SECOND, separately indexed feature matrix.  No model / oracle of its own: every variant must
    reproduce the plain-list run exactly (multipliers, the rows the base learner saw, the predictors, the selection,
    the predictions) -- a label-based join anywhere on the path shows up as a difference, since lists carry no labels."""
    name = "redcf"
    modes = ("container",)

    def gen_base(self, rng, flavor=None):
        while True:
            n = rng.choice([6, 7, 8, 9, 10, 12])
            k = rng.choice([2, 3, 3])
            x = [rng.randrange(k) for _ in range(n)]
            y = [rng.randint(0, 1) for _ in range(n)]
            g = [rng.choice("ab") for _ in range(n)]
            c = [rng.choice(["u", "v"]) for _ in range(n)]
            cells = {(gi, ci) for gi, ci in zip(g, c)}
            if len(set(y)) < 2 or len(set(x)) < 2 or len(cells) < 4:
                continue
            return {"x": x, "y": y, "g": g, "c": c, "algo": rng.choice(["gs", "gs", "eg"]),
                    "moment": rng.choice(["DP", "TPR", "EO", "ERP"]), "px": [rng.randrange(k) for _ in range(rng.choice([3, 5]))],
                    "lkind": rng.choice(["all", "threshold"])}

    def argdom(self, base):
        c = ["list", "nd", "nd2", "ser", "df"]
        return {"X": ["nd", "df"], "y": c, "sf": c, "cf": c, "pX": ["nd", "df"]}

    def baseline(self, base):
        return {"X": sp("nd"), "y": sp("list"), "sf": sp("list"), "cf": sp("list"), "pX": sp("nd")}

    def run(self, base, var):
        import fairlearn.reductions as red
        tag = f"c12cf-{os.getpid()}-{next(_COUNTER)}"
        try:
            X = xmat(base["x"], var["X"])
            pX = xmat(base["px"], var["pX"])
            mom = getattr(red, c06mod.MOMENTS[RED_MOMENTS[base["moment"]]])(difference_bound=0.05)
            kw = dict(sensitive_features=vec(base["g"], var["sf"], "sf"), control_features=vec(base["c"], var["cf"], "cf"))
            if base["algo"] == "gs":
                est = red.GridSearch(RecLearner(base["lkind"], tag, "nd"), mom, grid_size=5, grid_limit=2.0)
            else:
                est = red.ExponentiatedGradient(RecLearner(base["lkind"], tag, "nd"), constraints=mom, eps=0.05, max_iter=4,
                                                nu=1e-6, eta0=2.0)
            est.fit(X, vec(base["y"], var["y"], "y"), **kw)
            lam = est.lambda_vecs_
            out = {"lam_index": [[str(v) for v in (t if isinstance(t, tuple) else (t,))] for t in lam.index],
                   "lam": [[float(v) for v in lam[c].tolist()] for c in lam.columns],
                   "train": [[int(v) for v in np.asarray(p.predict(X)).reshape(-1)] for p in est.predictors_],
                   "records": [{"x": r.get("x"), "y": [int(v) for v in r["y"]], "w": [float(v) for v in r["w"]]}
                               for r in RECORDS.pop(tag, [])]}
            if base["algo"] == "gs":
                out["best_idx"] = int(est.best_idx_)
                out["predict"] = [int(v) for v in np.asarray(est.predict(pX)).reshape(-1)]
            else:
                out["weights"] = [float(v) for v in est.weights_]
                out["pmf1"] = [float(v) for v in np.asarray(est._pmf_predict(pX))[:, 1]]
            return out
        except Exception as e:  # noqa: BLE001
            RECORDS.pop(tag, None)
            return exc_token(e)

    def plan(self, base, out):
        return []

    def judge(self, base, out, model):
        probs = []
        xs = [float(v) for v in base["x"]]
        for r in out.get("records", []):
            if r.get("x") != xs:
                probs.append(Problem("property", f"the base learner was fitted on feature rows {r.get('x')} instead of {xs}",
                                     "C12.red.learner_rows"))
                break
        return probs

    def expected_rejection(self, base, out0):
        return out0.get("exc") == "ValueError" and "at least one non-zero" in out0.get("msg", "")

    def shrink(self, base):
        n = len(base["y"])
        for i in range(n):
            b = dict(base)
            for k in ("x", "y", "g", "c"):
                b[k] = base[k][:i] + base[k][i + 1:]
            if len(set(b["y"])) == 2 and len(set(b["x"])) >= 2 and len({(a, c_) for a, c_ in zip(b["g"], b["c"])}) == 4:
                yield b

    def tags(self, base):
        return [f"redcf.algo={base['algo']}", f"redcf.moment={base['moment']}"]


# ===================================================================== entry point: the conversion glue itself
# The functions through which fairlearn turns user containers into positional data, run DIRECTLY on the containers
# and compared with (a) the Lean container model (`Model/Container.lean`, op `cont.place`) driven by the conversion
# classes LIFTED from the source for these very sites (`Generated/ContainerSites.lean`), (b) the positional oracle.
CONV_CODE = {"asarray": 0, "values": 1, "listOf": 2, "resetIndex": 3, "fresh": 4, "kind": 5, "raw": 6}
KIND_CODE = {"list": 0, "nd": 1, "nd2": 1, "ser": 2, "ser_nn": 2, "ser_cat": 2, "df": 3, "df0": 3, "dict": 4}
GUARD_OF = {"list": "list", "nd": "np.ndarray", "nd2": "np.ndarray", "ser": "pd.Series", "ser_nn": "pd.Series", "ser_cat": "pd.Series",
            "df": "pd.DataFrame", "df0": "pd.DataFrame"}
_SITES = {}


def lifted_sites():
    """[(entry, arg, sink, conv)] as lifted from the tree under test (None when the lifter refuses)"""
    if "v" not in _SITES:
        from .. import core, translate
        try:
            _SITES["v"] = [tuple(r) for r in translate.run(core.REPO)["ContainerSites.lean"]["sites"]]
        except (translate.Untranslatable, KeyError):
            _SITES["v"] = None
    return _SITES["v"]


def sites_clean():
    st = lifted_sites()
    return st is not None and all(r[3] != "raw" for r in st)


def conv_for(entry, arg, guard=None):
    """conversion class of one argument of one lifted site (worst class when several sinks match)"""
    st = lifted_sites() or []
    hits = [r[3] for r in st if r[0] == entry and (arg is None or r[1].split(" [")[0].split("+")[0] == arg)
            and (guard is None or f":{guard}]" in r[1])]
    if guard == "list":
        hits = [h for h in hits if h != "listOf"] or hits       # the map(..) sink is the list-of-lists branch
    if not hits:
        return None
    return "raw" if "raw" in hits else hits[0]


def label_codes(spec, n):
    """index labels of a pandas container as integers (string labels are coded as negative numbers: never 0..n-1)"""
    if spec["c"] not in PANDAS:
        return []
    idx = mk_index(spec.get("i", "default"), n, spec.get("s", 0))
    if idx is None:
        return list(range(n))
    return [v if isinstance(v, int) else -(int(v[1:]) + 1) for v in idx]


def col_out(values):
    out = []
    for v in list(values):
        try:
            fv = float(v)
        except (TypeError, ValueError):
            out.append(str(v))
            continue
        out.append("nan" if fv != fv else fv)
    return out


class VarTok(str):
    """the variant a ContEntry output was produced with (JSON text); compares equal to any other VarTok so that the
    variant-vs-baseline comparison ignores it"""

    def __eq__(self, other):
        return isinstance(other, str)

    def __ne__(self, other):
        return not self.__eq__(other)

    __hash__ = str.__hash__


class ContEntry(EPBase):
    name = "cont"
    modes = ("container",)
    ARGS_VAL = (("y", "y"), ("sf", "sensitive_features"), ("cf", "control_features"))
    ARGS_THR = ("sf", "sc", "y")

    def gen_base(self, rng, flavor=None):
        n = rng.choice([2, 3, 4, 5, 6, 8])
        return {"y": [rng.randint(0, 1) for _ in range(n)], "sf": [rng.randrange(3) for _ in range(n)],
                "cf": [10 + rng.randrange(2) for _ in range(n)],
                "sc": [str(F(rng.randrange(17), 16)) for _ in range(n)]}

    def argdom(self, base):
        c = ["list", "nd", "nd2", "ser", "df"]
        return {"X": ["nd", "df"], "y": c, "sf": c, "cf": c, "sc": c}

    def baseline(self, base):
        return {"X": sp("nd"), "y": sp("list"), "sf": sp("list"), "cf": sp("list"), "sc": sp("list")}

    def payload(self, base, a):
        return [F(v) for v in base[a]]

    def run(self, base, var):
        from fairlearn.postprocessing import _threshold_optimizer as tomod
        from fairlearn.utils._input_validation import _validate_and_reformat_input
        n = len(base["y"])
        out = {"_var": VarTok(json.dumps(var, sort_keys=True))}
        try:
            X = xmat([F(v) for v in base["sc"]], var["X"])
            y = vec(base["y"], var["y"], "y")
            sf = vec(base["sf"], var["sf"], "sf")
            cf = vec(base["cf"], var["cf"], "cf")
            sc = vec([float(F(v)) for v in base["sc"]], var["sc"], "sc")
        except Exception as e:  # noqa: BLE001
            return {"crash_build": repr(e)[:200]}
        try:
            _, ry, rsf, rcf = _validate_and_reformat_input(X, y, sensitive_features=sf, control_features=cf)
            out["val"] = {"cols": [col_out(ry), col_out(rsf), col_out(rcf)],
                          "fresh": [bool(isinstance(r, pd.Series) and list(r.index) == list(range(n))) for r in (ry, rsf, rcf)]}
        except Exception as e:  # noqa: BLE001
            out["val"] = exc_token(e)
        out["_rawpd"] = VarTok(json.dumps(self.raw_pandas(base, var)))
        try:
            fr_ = tomod._reformat_and_group_data(sf, y, sc).obj
            out["thr"] = {"cols": [col_out(fr_[tomod.SENSITIVE_FEATURE_KEY]), col_out(fr_[tomod.SCORE_KEY]),
                                   col_out(fr_[tomod.LABEL_KEY])], "rows": int(len(fr_))}
        except Exception as e:  # noqa: BLE001
            out["thr"] = exc_token(e)
        return out

    RAW_ARG = "sf"

    def raw_pandas(self, base, var):
        """(review R3) what REAL pandas does with an unconverted labelled column: `frame[c] = Series(payload, index=labels)`
        on a RangeIndex frame -- the operation `Cont.place (.labelled ..)` models (`C12.raw_series_is_label_sensitive`,
        `raw_place_wf`, `raw_place_dup_raises`).  The lifted conversions of the clean tree never reach that branch, so
        without this line the label-aligning half of the container model was compared with nothing.  None for arguments
        without labels."""
        spec = var[self.RAW_ARG]
        if spec["c"] not in PANDAS:
            return None
        n = len(base["y"])
        idx = mk_index(spec.get("i", "default"), n, spec.get("s", 0))
        ser = pd.Series([float(v) for v in self.payload(base, self.RAW_ARG)], index=idx)
        frame = pd.DataFrame(index=range(n))
        try:
            frame["c"] = ser
        except ValueError as e:
            return "err:dup" if "duplicate" in str(e) else "err:" + str(e)[:60]
        return [col_out(frame["c"])]

    def _convs(self, var):
        val = [conv_for("_validate_and_reformat_input", a2) for _, a2 in self.ARGS_VAL]
        thr = [conv_for("ThresholdOptimizer._reformat_data_into_dict", None, GUARD_OF[var[a]["c"]])
               for a in self.ARGS_THR]
        return val, thr

    def plan(self, base, out):
        if "_var" not in out:
            return []
        var = json.loads(out["_var"])
        n = len(base["y"])
        val, thr = self._convs(var)
        lines = []
        for tag, convs, args in (("cont.val", val, [a for a, _ in self.ARGS_VAL]), ("cont.thr", thr, list(self.ARGS_THR))):
            if any(c is None for c in convs):
                continue
            lines.append((tag, f"cont.place {n} {proto.lst([CONV_CODE[c] for c in convs])} "
                               f"{proto.lst([KIND_CODE[var[a]['c']] for a in args])} "
                               f"{';'.join(proto.lst(label_codes(var[a], n)) for a in args)} "
                               f"{proto.mat([self.payload(base, a) for a in args])}"))
        if var[self.RAW_ARG]["c"] in PANDAS:
            a = self.RAW_ARG
            lines.append(("cont.raw", f"cont.place {n} {CONV_CODE['raw']} {KIND_CODE[var[a]['c']]} "
                                      f"{proto.lst(label_codes(var[a], n))} {proto.mat([self.payload(base, a)])}"))
        return lines

    @staticmethod
    def _parse(tok):
        if tok.startswith("err") or tok == "bad-op":
            return tok
        return [["nan" if t == "nan" else float(proto.p_rat(t)) for t in (c.split(",") if c != "-" else [])] for c in tok.split(";")]

    def judge(self, base, out, model):
        probs = []
        var = json.loads(out["_var"]) if "_var" in out else {}
        specs = (("val", "cont.val", [a for a, _ in self.ARGS_VAL], "_validate_and_reformat_input"),
                 ("thr", "cont.thr", list(self.ARGS_THR), "_reformat_and_group_data"))
        for key, tag, args, fn in specs:
            want = [[float(v) for v in self.payload(base, a)] for a in args]
            got = out.get(key, {})
            desc = " ".join(f"{a}={var[a]['c']}/{var[a].get('i', 'default')}" for a in args if a in var)
            if "exc" in got:
                probs.append(Problem("property", f"{fn} raised {got['exc']} ({got.get('msg', '')[:80]}) on accepted containers "
                                                 f"[{desc}]", f"C12.containers_irrelevant ({fn})"))
                bad = True
            else:
                bad = got["cols"] != want
                if bad:
                    probs.append(Problem("property", f"{fn} [{desc}] returns columns {got['cols']} but the payloads BY POSITION are "
                                                     f"{want}: rows were paired by index label", f"C12.positional_pairing ({fn})"))
                if key == "val" and not all(got["fresh"]):
                    probs.append(Problem("property", f"{fn} [{desc}] returned a Series whose index is not RangeIndex: {got['fresh']}",
                                         "C12.validate_fresh"))
            if model is not None and tag in model:
                m = self._parse(model[tag])
                if m != want:
                    probs.append(Problem("harness" if sites_clean() else "correspondence",
                                         f"container model for {fn} [{desc}] gives {m}, positional payloads {want}",
                                         "C12.lifted_sites_drop_labels / positional_pairing"))
                if not bad and "cols" in got and m != got["cols"]:
                    probs.append(Problem("correspondence", f"{fn} [{desc}] differs from the container model {m}", "C12.cont.place"))
        if model is not None and "cont.raw" in model and "_rawpd" in out:
            # model of pandas vs real pandas: neither side is fairlearn -> a disagreement is OUR machinery (exit 2)
            m, real = self._parse(model["cont.raw"]), json.loads(out["_rawpd"])
            if m != real:
                probs.append(Problem("harness", f"Cont.place (raw, labelled) gives {m} but real pandas column assignment gives "
                                                f"{real} for {self.RAW_ARG}={var[self.RAW_ARG]}"))
        if lifted_sites() is None:
            probs.append(Problem("correspondence", "the container-site lifter refuses the tree under test",
                                 "C12.lifted_sites_drop_labels"))
        return probs

    def shrink(self, base):
        n = len(base["y"])
        for i in range(n):
            if n > 2:
                yield {k: v[:i] + v[i + 1:] for k, v in base.items()}

    def tags(self, base):
        return ["cont.sites=" + ("clean" if sites_clean() else "raw-or-refused")]

    def out_tags(self, out):
        if "_rawpd" not in out:
            return []
        r = json.loads(out["_rawpd"])
        if r is None:
            return []
        if isinstance(r, str):
            return ["cont.raw-pandas=" + r]
        return ["cont.raw-pandas=" + ("some-NaN" if "nan" in r[0] else "aligned")]


# ===================================================================== the check
EPS = {e.name: e for e in (MFEntry(), FMEntry(), MomEntry(), EGEntry(), GSEntry(), TOEntry(), ContEntry(), RedCFEntry())}
_BASE_CACHE = {}


def baseline_out(ep, base):
    key = ep.name + json.dumps(base, sort_keys=True, default=str)
    if key not in _BASE_CACHE:
        if len(_BASE_CACHE) > 64:
            _BASE_CACHE.clear()
        _BASE_CACHE[key] = ep.run(base, ep.baseline(base))
    return _BASE_CACHE[key]


def n_rows(ep, base):
    return len(base["rows"]) if ep.name == "to" else len(base["y"])


def series_pred_finding(case):
    """F16 shape: the predictions handed to a Moment come back from the predictor / base learner as a pandas Series that
    carries the index labels of a DataFrame X whose labels are not 0..n-1 in order"""
    v = case["var"]
    if case["ep"] == "mom":
        return v["pred"]["c"] == "ser_x" and v["X"]["c"] == "df" and v["X"].get("i", "default") != "default"
    if case["ep"] in ("eg", "gs"):
        return v["lout"]["c"] == "ser_x" and v["X"]["c"] == "df" and v["X"].get("i", "default") != "default"
    return False


@register
class CHECK(Check):
    pid = "C12"
    technique = ("Lean 4 theorems (permutation / relabelling invariance of the MetricFrame, aggregate, fairness-metric and "
                 "moment models; a container model -- kind, index labels, payload, conversion, label-aligning placement -- whose "
                 "conversion class per argument is lifted from the source on every run) + compiled-driver correspondence of "
                 "every entry point and of the conversion glue itself under all accepted container types and pandas index "
                 "labels against the model evaluated on the positional zip")
    level_text = ("PARTIAL BY NATURE. Theorems (all row lists, no size bound) cover the model half: by_group/overall are equal "
                  "tables for permuted rows for every permutation-invariant metric (proved for the whole metric pool; the index "
                  "and the slices' row multisets unconditionally); group_min/max/difference/ratio and the six named fairness "
                  "metrics are permutation invariant; Moment.index and gamma are invariant under a JOINT permutation of rows and "
                  "predictions, signed_weights travel with their rows; ErrorRate / BoundedGroupLoss likewise; a column-wise "
                  "injective relabelling renames exactly the index entries (Perm of the entry lists, arbitrary metric) and leaves "
                  "all aggregates and fairness metrics unchanged when control labels are kept. Containers and index labels: "
                  "Model/Container.lean + Generated/ContainerSites.lean (40 (entry point, argument, sink) sites with the "
                  "conversion each argument passes through before a label-aligning pandas operation); containers_irrelevant: if "
                  "every argument passes a label-dropping conversion the frame, hence any result, depends on the payloads only, "
                  "for all kinds and labels; positional_pairing; lifted_sites_drop_labels (decide over the generated table; "
                  "fails naming the site when an argument reaches a frame raw); raw_series_is_label_sensitive (necessity). "
                  "Still correspondence-only: that the listed sites are ALL the paths (intra-procedural lifter) and pandas' "
                  "reindexing itself — MetricFrame, the 6 fairness metrics, 5 parity moments + ErrorRate + "
                  "BoundedGroupLoss, ExponentiatedGradient, GridSearch, ThresholdOptimizer (fit and predict) under "
                  "list/ndarray/(n,1) ndarray/Series/DataFrame/dict containers with default, shuffled, offset, duplicated and "
                  "string index labels, compared with the list baseline, the compiled model and a Fraction oracle on the "
                  "positional zip.")
    design_ref = "DESIGN.md section 4, C12"
    quick_cases = 1300
    thorough_cases = 7000
    quick_budget_s = 150
    thorough_budget_s = 1300
    workers_thorough = 4
    rule = ("one base dataset per case (2..14 rows for metrics, 3..12 for moments, 5..12 for the reductions, 4..24 for "
            "ThresholdOptimizer; binary labels; 1..2 sensitive and 0..1 control columns with str or int values; positive dyadic "
            "weights) and ONE variant: every argument in one of its accepted containers (y/pred: list, ndarray (n,), ndarray "
            "(n,1), Series, 1-column DataFrame [named or unnamed for ThresholdOptimizer]; features: list, ndarray, (n,k) object "
            "ndarray, Series (named/unnamed), DataFrame, dict of arrays; sample params: list, ndarray, Series, DataFrame; X: "
            "ndarray or DataFrame; predictor / scorer / base-learner output: ndarray, (n,1) ndarray, list, default-index Series, "
            "Series carrying X's index), each pandas object with its OWN index labels from {default, shuffled permutation of "
            "0..n-1, offset by one, duplicated, shuffled strings}. quick: pairwise-covering arrays over (container, index kind) "
            "of all arguments + all-pandas rows, ~3 base datasets per entry point; thorough: additionally the FULL container "
            "product for the entry points with <= 4 arguments (fairness metrics, moments without control feature, "
            "ExponentiatedGradient, GridSearch). Plus joint row permutations and bijective group relabellings (metrics, moments, "
            "ThresholdOptimizer; not the reductions: GridSearch's basis drops the last-SEEN group by design and EG's iterates "
            "amplify last-bit differences). "
            "Generator restrictions (review R3): every feature column has >= 2 distinct values; moments: the first two rows "
            "carry two different groups and the labels 0 and 1, integer group names are single digits (string order = numeric "
            "order), 1..2 control values; reductions: >= 2 distinct feature values, both labels overall and in every group, "
            "redcf: all four (group, control) cells occupied; ThresholdOptimizer: cases of C04's quantifier with <= 24 rows, "
            "predict-time scores = a training score or that +-1/16; duplicated index labels come in pairs ((n-1-i)//2); "
            "relabellings map the observed values onto fresh values of the same type in random order (strings incl. a space "
            "and a non-ASCII letter; ints 20..59); the `ids` sample parameter is 2^i. Comparison: variant vs list run with "
            "relative tolerance 1e-14 (measured: bit-equal for containers / relabelling, 3.3e-16 for permutations), vs the "
            "Fraction oracle 5e-14 (measured 6.7e-16). A difference between two runs of fairlearn on the same data is a "
            "PROPERTY failure (failing input = the case); the redcf stream and EG's counters / GridSearch's selection have no "
            "other oracle than the list run. "
            "distinct = distinct (entry point, base, variant); non-trivial = some pandas argument with non-default labels, or a "
            "permutation / relabelling run")
    explanation = ("theorems over Model/Frame, Aggregate, MetricPool, Moments and Model/Perm.lean prove permutation and relabelling "
                   "invariance of the models for all inputs; the container model (Model/Container.lean over the lifted site table) "
                   "covers kinds and index labels per lifted site; that the sites are all the paths is "
                   "covered by correspondence only: each variant must equal the list baseline (tolerance 1e-14 relative; identical "
                   "code path, bit-equal measured), the Lean model on the positional zip (ops frame.eval, agg.eval, perm.fair, mom.*, "
                   "thr.*, cont.place -- the latter also with conversion `raw` against a real pandas column assignment) "
                   "and the Fraction oracle on the positional zip, which is what decides `property` problems. For EG/GridSearch the "
                   "rows (x, relabelled y, weight) seen by a recording exact learner are compared with the model's relabelling for "
                   "the multiplier vector of each predictor.")
    trusted = ("harness containers: numpy / pandas constructors build the variants; a label-based join inside fairlearn shows up as "
               "a difference to the positional-zip model",
               "per-entry-point model correspondences of C01/C02/C04/C06/C09 (same ops, same tolerances)",
               "RecLearner / PassThrough stand for an arbitrary base learner / prefit scorer; with out='ser_x' they answer with a "
               "pandas Series labelled like the X they were given (what pandas-aware estimators do)")
    assumptions = ("feature values are strings or small ints, no NaN", "weights positive", "binary labels",
                   "every group has both labels for ThresholdOptimizer and GridSearch")

    # ---------------------------------------------------------------- generation
    NBASES = {"mf": 4, "fm": 5, "mom": 6, "eg": 4, "gs": 4, "to": 5, "cont": 3, "redcf": 3}

    def _cases_for(self, rng, ep, tier, flavor=None, nperm=2, nrel=2):
        """one pairwise-covering array of (container, index kind) per call, its rows dealt out over several base datasets
        with the same argument list; per base: the baseline itself, joint row permutations and group relabellings"""
        bases = [ep.gen_base(rng, flavor)]
        dom = ep.argdom(bases[0])
        tries = 0
        while len(bases) < self.NBASES[ep.name] and tries < 200:
            tries += 1
            b = ep.gen_base(rng, flavor)
            if ep.argdom(b) == dom:
                bases.append(b)
        out = []
        for i, v in enumerate(variants(rng, dom, "pairwise")):
            out.append({"ep": ep.name, "mode": "container", "base": bases[i % len(bases)], "var": v})
        vs = [c["var"] for c in out]
        extra = []
        for base in bases:
            extra.append({"ep": ep.name, "mode": "container", "base": base, "var": ep.baseline(base)})
            for v in ep.extra_variants(rng, base):
                extra.append({"ep": ep.name, "mode": "container", "base": base, "var": v})
            if "perm" in ep.modes:
                n = n_rows(ep, base)
                for _ in range(nperm):
                    p = list(range(n))
                    rng.shuffle(p)
                    v = rng.choice(vs) if rng.random() < 0.5 else ep.baseline(base)
                    extra.append({"ep": ep.name, "mode": "perm", "base": base, "var": v, "perm": p})
            if "relabel" in ep.modes:
                for _ in range(nrel):
                    v = rng.choice(vs) if rng.random() < 0.5 else ep.baseline(base)
                    extra.append({"ep": ep.name, "mode": "relabel", "base": base, "var": v, "rseed": rng.randrange(10 ** 6)})
        # spread the extra cases through the list (a truncated run still sees them)
        step = max(1, len(out) // max(1, len(extra)))
        merged = []
        for i, c in enumerate(out):
            if i % step == 0 and extra:
                merged.append(extra.pop(0))
            merged.append(c)
        return merged + extra

    def generate(self, rng, tier):
        while True:
            chunk = []
            for ep in EPS.values():
                for flavor in ep.flavors:
                    cs = self._cases_for(rng, ep, tier, flavor)
                    if ep.name in ("eg", "gs") and tier == "quick":
                        cs = rng.sample(cs, min(len(cs), 36))
                    if ep.name == "redcf" and tier == "quick":
                        cs = rng.sample(cs, min(len(cs), 16))
                    chunk.append(cs)
            # interleave so that a truncated run still covers every entry point
            while any(chunk):
                for cs in chunk:
                    for _ in range(4):
                        if cs:
                            yield cs.pop(0)

    def exhaustive(self, tier):
        rng = random.Random(12)
        for name in ("cont", "fm", "eg", "gs", "mom"):
            ep = EPS[name]
            reps = 8 if name == "mom" else 1
            for _ in range(reps):
                while True:
                    base = ep.gen_base(rng)
                    if name == "fm" and base["w"] is None:
                        continue
                    if name == "mom" and base["c"] is not None:
                        continue
                    break
                for v in variants(rng, ep.argdom(base), "full"):
                    yield {"ep": name, "mode": "container", "base": base, "var": v}

    # ---------------------------------------------------------------- implementation
    def _second(self, case):
        ep = EPS[case["ep"]]
        base = case["base"]
        if case["mode"] == "perm":
            return ep, ep.permuted(base, case["perm"]), case["perm"]
        if case["mode"] == "relabel":
            b1, info = ep.relabelled(base, case["rseed"])
            return ep, b1, info
        return ep, base, None

    def impl(self, case):
        ep, b1, _ = self._second(case)
        return {"base_out": baseline_out(ep, case["base"]), "out": ep.run(b1, case["var"])}

    def lines(self, case, o):
        if "crash" in o:
            return []
        ep, b1, _ = self._second(case)
        out = o["out"]
        if "exc" in out or "crash_build" in out:
            return []
        return [ln for _, ln in ep.plan(b1, out)]

    # ---------------------------------------------------------------- judging
    def judge(self, case, o, mo):
        if "crash" in o:
            return [Problem("harness", f"adapter crashed: {o}")]
        ep, b1, info = self._second(case)
        out0, out1 = o["base_out"], o["out"]
        if "crash_build" in out1 or "crash_build" in out0:
            return [Problem("harness", f"could not build the containers: {out1}")]
        where = f"[{case['ep']}/{case['mode']} {self._describe(case)}]"
        if "exc" in out0:
            if "exc" in out1 and out1["exc"] == out0["exc"] and ep.expected_rejection(case["base"], out0):
                o["_tags"] = ["both-rejected:" + out0["exc"]]
                return []
            return [Problem("property", f"{where} the plain-list baseline run failed on a valid input: {out0}", "C12.baseline_accepts")]
        if "exc" in out1:
            return [Problem("property", f"{where} raised {out1['exc']} ({out1.get('msg', '')[:100]}) although the same data as plain "
                                        f"lists is accepted: a documented container / index is rejected", "C12.accepts")]
        model = None
        if mo is not None:
            plan = ep.plan(b1, out1)
            if len(plan) != len(mo):
                return [Problem("harness", f"{len(mo)} driver answers for {len(plan)} lines")]
            model = {t: m for (t, _), m in zip(plan, mo)}
        probs = ep.judge(b1, out1, model)
        for p in probs:
            p.msg = f"{where} {p.msg}"
        # ---- implementation vs implementation
        exp = ep.expect(case["mode"], out0, info)
        a, b = (ep.canon(exp), ep.canon(out1)) if case["mode"] == "relabel" else (exp, out1)
        if ep.name == "to" and case["mode"] != "container":
            a, b = dict(a), dict(b)
            a.pop("pred", None), b.pop("pred", None)
            if ep._i_impl(case["base"], out0) != ep._i_impl(b1, out1):
                o["_tags"] = ["to.other-grid-index-after-transformation(tie)"]
                a = b
        d = first_diff(a, b, tol=VB_TOL)
        if d and not any(p.kind == "property" for p in probs):
            # (review R3) The property itself is RELATIONAL: "identical results whether the data arrive as ... / after a
            # joint permutation / up to the renaming".  Two runs of fairlearn on the same data that differ ARE a concrete
            # failing input of C12 -- also where no first-principles oracle covers the observable (EG's gap / iteration
            # counters, GridSearch's selection and predictions, the redcf stream, ThresholdOptimizer.predict).  It used to
            # be filed as `correspondence`, i.e. reported as "no failing input found" although the case at hand is one.
            rel = {"container": "C12.variant_eq_baseline", "perm": "C12.perm_invariance(impl)",
                   "relabel": "C12.rename_equivariant(impl)"}[case["mode"]]
            what = {"container": "the same data handed over in other containers / with other index labels",
                    "perm": "the jointly permuted rows", "relabel": "the bijectively relabelled groups"}[case["mode"]]
            probs.append(Problem("property", f"{where} {what} give a result that differs from the plain-list run of the same "
                                             f"call at {d}", rel))
        return probs

    def _describe(self, case):
        parts = []
        for a, s in case["var"].items():
            parts.append(f"{a}={s['c']}" + (f"/{s['i']}" if s["c"] in PANDAS else ""))
        if case["mode"] == "perm":
            parts.append(f"perm={case['perm']}")
        if case["mode"] == "relabel":
            parts.append(f"relabel-seed={case['rseed']}")
        return " ".join(parts)

    # ---------------------------------------------------------------- bookkeeping
    def signature(self, case, o):
        ep = EPS[case["ep"]]
        var = case["var"]
        n = n_rows(ep, case["base"])
        tags = [f"ep={case['ep']}", f"mode={case['mode']}", f"{case['ep']}.n=" + ("2-4" if n <= 4 else "5-8" if n <= 8 else "9+")]
        npd = 0
        for a, s in var.items():
            tags.append(f"{case['ep']}.{a}={s['c']}")
            if s["c"] in PANDAS:
                tags.append(f"index={s.get('i', 'default')}")
                if s.get("i", "default") != "default":
                    npd += 1
        tags.append(f"pandas-args-with-nondefault-labels={min(npd, 3)}{'+' if npd >= 3 else ''}")
        tags += ep.tags(case["base"])
        if isinstance(o, dict):
            tags += o.get("_tags", [])
            out = o.get("out", {})
            if isinstance(out, dict) and "exc" in out:
                tags.append("variant-raised=" + out["exc"])
            if isinstance(out, dict):
                tags += out.get("_tags", [])
                if hasattr(ep, "out_tags"):
                    tags += ep.out_tags(out)
        if series_pred_finding(case):
            tags.append("shape=F16(predictions as X-labelled Series)")
        nontriv = case["mode"] != "container" or npd > 0
        return json.dumps(case, sort_keys=True, default=str), nontriv, tags

    def shrink(self, case):
        ep = EPS[case["ep"]]
        base = case["base"]
        bl = ep.baseline(base)
        var = case["var"]
        for a in var:                                   # one argument back to the baseline container
            if var[a] != bl[a]:
                yield dict(case, var=dict(var, **{a: bl[a]}))
        for a in var:                                   # one index back to default labels
            if var[a]["c"] in PANDAS and var[a].get("i", "default") != "default":
                yield dict(case, var=dict(var, **{a: sp(var[a]["c"])}))
        if case["mode"] == "perm" and case["perm"] != sorted(case["perm"]):
            n = len(case["perm"])
            yield dict(case, perm=list(range(1, n)) + [0])
        for b in ep.shrink(base):                       # smaller base dataset
            c = dict(case, base=b)
            if case["mode"] == "perm":
                n = n_rows(ep, b)
                c["perm"] = list(range(1, n)) + [0]
            yield c

    def known(self, case, problem, entries):
        if series_pred_finding(case) and problem.kind != "harness":
            for e in entries:
                if e["id"] == "F16":
                    return e
        return None
