"""C14 — base rate metrics are weighted confusion-matrix ratios for any binary encoding."""
import itertools
from fractions import Fraction as F

import numpy as np

from .. import proto
from ..core import Check, Problem, register

DTYPES = ("bool", "int8", "uint8", "float32", "list")
ENC = {
    "01": {0: 0, 1: 1},
    "pm1": {-1: -1, 1: 1},
    "str": {100: "a", 101: "b", 102: "c"},
    "int": {3: 3, 7: 7, 9: 9},
}
# Measured on the clean tree (9000 generated cases, seeds 0..2): max |fairlearn - exact Fraction| = 7.7e-16 (one float
# division of exactly represented sums; mean_prediction of labels up to 9), max |TPR+FNR-1| = 0.  Tolerance = 65 x that.
TOL = 5e-14


def far(x, y):
    """NaN-safe `|x - y| > TOL`: a NaN on either side is FAR (a plain `abs(nan - y) > TOL` is False and would let a NaN
    returned by the implementation pass every value comparison)."""
    return not (abs(x - y) <= TOL)

# sha256 of lean/FairModel/Generated/BaseMetricsSrc.lean as translated from the pinned tree.  While the translation is
# unchanged, a disagreement between the translated functions (driver ops `bms.*`) and the first-principles oracle is a
# bug of this machinery (HARNESS-ERROR); after a source edit that changed the translation it is a broken tie and is
# reported as a correspondence problem (relation C14.generated-source-vs-oracle).
PINNED_SRC_SHA256 = "cb082fbd4fb78e461077140362324aab53b188af624b49561426c354f1b6de8c"
_SRC_STATE = {}


def source_changed():
    if "v" not in _SRC_STATE:
        import hashlib
        import os
        from .. import leanrun
        path = os.path.join(leanrun.LEAN, "FairModel", "Generated", "BaseMetricsSrc.lean")
        try:
            with open(path, "rb") as f:
                _SRC_STATE["v"] = hashlib.sha256(f.read()).hexdigest() != PINNED_SRC_SHA256
        except OSError:
            _SRC_STATE["v"] = False
    return _SRC_STATE["v"]


def src_problem(msg):
    if source_changed():
        return Problem("correspondence", "the translated source departs from the first-principles oracle "
                       "(_base_metrics.py changed): " + msg, "C14.generated-source-vs-oracle")
    return Problem("harness", msg)


def fr(x):
    return F(x) if not isinstance(x, str) else F(x)


def canon(v):
    """(shape tag, value) of a python/numpy return value"""
    if isinstance(v, (bool, int, float, np.generic)) or np.ndim(v) == 0:
        return ["scalar", float(v)]
    return ["array" + str(tuple(np.shape(v))), [float(t) for t in np.ravel(v)][:4]]


def call(fn, *a, **k):
    try:
        return canon(fn(*a, **k))
    except ValueError as e:
        return ["exc", "ValueError", str(e)[:60]]
    except Exception as e:  # noqa: BLE001
        return ["exc", type(e).__name__, str(e)[:60]]


def spec_rate(kind, yt, yp, w, neg, pos):
    a = {"tpr": (pos, pos), "fnr": (pos, neg), "fpr": (neg, pos), "tnr": (neg, neg)}[kind]
    num = sum(wi for t, p, wi in zip(yt, yp, w) if (t, p) == a)
    den = sum(wi for t, p, wi in zip(yt, yp, w) if t == a[0] and p in (neg, pos))
    return F(0) if den == 0 else F(num) / den


def spec_labels(yt, yp, pos):
    u = sorted(set(yt) | set(yp))
    if pos is None:
        if set(u) <= {0, 1} or set(u) <= {-1, 1}:
            pos = 1
        else:
            return "err:restricted"
    if len(u) == 1:
        return (-(2 ** 63), pos) if u[0] == pos else (u[0], pos)
    if len(u) == 2:
        if pos == u[0]:
            return (u[1], u[0])
        if pos == u[1]:
            return (u[0], u[1])
        return "err:needpos"
    return "err:toomany"


@register
class CHECK(Check):
    pid = "C14"
    technique = ("Lean 4 theorems over the BaseMetrics model and over the statement-by-statement TRANSLATION of _base_metrics.py "
                 "(lifter base_metrics.py -> Generated/BaseMetricsSrc.lean, proved equal to the model) + compiled-driver "
                 "correspondence with the 7 public functions")
    level_text = ("Theorems (all inputs, no size bound): rates in [0,1], TPR+FNR / TNR+FPR = 1 or both 0 (also at the level of the "
                  "public functions in terms of 'a row of that class exists', positive weights), every rate = weight of one cell / "
                  "weight of the whole true class for any accepted labelling, pos_label swap for two observed values and for "
                  "single-valued vectors, accepted encodings and rejection rules of _get_labels_for_confusion_matrix, "
                  "selection_rate/mean_prediction as division-free unique quotients in range, count; totalisation witnesses "
                  "(zero weights, empty input, sentinel label) replayed on fairlearn. "
                  "Tie: the 7 public functions vs the compiled Lean model on generated + exhaustive small inputs, value "
                  "within 5e-14 (measured 7.7e-16) and scalar-ness of the returned object; independent Fraction oracle decides violations. "
                  "Translator tie: the bodies of _get_labels_for_confusion_matrix, the four rates, count, mean_prediction and "
                  "selection_rate are translated on every run into Lean do-notation over numpy/sklearn primitives "
                  "(Model/NumpySk.lean); src_*_eq_model prove the translation equal to the hand-written model, the property "
                  "clauses are restated for the translated functions, and the driver evaluates the TRANSLATED functions "
                  "(ops bms.*) against fairlearn and the oracle on every case.")
    design_ref = "DESIGN.md section 4, C14"
    quick_cases = 1500
    thorough_cases = 40000
    quick_budget_s = 60
    thorough_budget_s = 600
    rule = ("label/prediction vectors of length 1..8 over encodings {0,1},{-1,1},{'a','b'},{3,7} (+ malformed: 3 distinct "
            "values, foreign pos_label), optional positive integer/dyadic weights, pos_label None/each class; all seven "
            "functions called; distinct = distinct (encoding, vectors, weights, pos_label); non-trivial = at least 2 rows "
            "or weighted; thorough additionally enumerates all vectors up to length 5 over {0,1} with weights in {none,{1,2}}")
    explanation = ("theorems over the Lean model BaseMetrics (all inputs); correspondence: 7 public functions vs compiled "
                   "driver, value within 5e-14 (measured max deviation 7.7e-16; NaN counts as a deviation) and scalar-ness of the return value; oracle: first-principles Fractions")
    trusted = ("sklearn.metrics.confusion_matrix(normalize='true') incl. nan_to_num of empty rows (modelled by `ratio`)",
               "the numpy/sklearn primitives of Model/NumpySk.lean (np.dot, .sum(), np.ones, ==, np.unique, np.vstack, "
               "frozenset.issuperset, confusion_matrix(labels=, sample_weight=, normalize=).ravel()) are specifications; sklearn's "
               "'At least one label specified must be in y_true' error is not modelled (unreachable from the unchanged code)",
               "harness/lifters/base_metrics.py: the Python-ast -> Lean do-notation translation of the eight function bodies",
               "string labels are mapped order-preservingly to integers 100.. before entering the model")
    assumptions = ("weights are positive (all-zero weights: sklearn raises, zero total weight: numpy NaN — the Lean model is "
                   "total there, see the TOTALISATION block of Properties/C14.lean)", "labels of one call share a type",
                   "no label equals np.iinfo(np.int64).min, the sentinel the code pairs a single observed label with "
                   "(C14.sentinel_label_deviates)", "mean_prediction is not called on string labels")

    # ---------------------------------------------------------------- generation
    def generate(self, rng, tier):
        while True:
            enc = rng.choice(["01", "01", "pm1", "str", "int"])
            vals = sorted(ENC[enc].keys())
            r = rng.random()
            if r < 0.08:
                use = vals[:3] if len(vals) >= 3 else vals
            elif r < 0.25:
                use = [rng.choice(vals[:2])]
            else:
                use = vals[:2]
            n = rng.choice([1, 1, 2, 2, 3, 4, 5, 6, 7, 8])
            yt = [rng.choice(use) for _ in range(n)]
            yp = [rng.choice(use) for _ in range(n)]
            wk = rng.random()
            if wk < 0.35:
                w = None
            elif wk < 0.7:
                w = [str(rng.randint(1, 5)) for _ in range(n)]
            else:
                w = [str(F(rng.randint(1, 24), rng.choice([1, 2, 4, 8]))) for _ in range(n)]
            pk = rng.random()
            if pk < 0.3:
                pos = None
            elif pk < 0.9:
                pos = rng.choice(vals[:2])
            else:
                pos = rng.choice(vals)
            yield {"enc": enc, "yt": yt, "yp": yp, "w": w, "pos": pos}

    def exhaustive(self, tier):
        for n in range(1, 6):
            for yt in itertools.product([0, 1], repeat=n):
                for yp in itertools.product([0, 1], repeat=n):
                    yield {"enc": "01", "yt": list(yt), "yp": list(yp), "w": None, "pos": None}
                    if n <= 3:
                        for w in itertools.product(["1", "2"], repeat=n):
                            yield {"enc": "01", "yt": list(yt), "yp": list(yp), "w": list(w), "pos": None}

    def shrink(self, case):
        n = len(case["yt"])
        for i in range(n):
            if n > 1:
                c = dict(case)
                c["yt"] = case["yt"][:i] + case["yt"][i + 1:]
                c["yp"] = case["yp"][:i] + case["yp"][i + 1:]
                c["w"] = None if case["w"] is None else case["w"][:i] + case["w"][i + 1:]
                yield c
        if case["w"] is not None:
            yield dict(case, w=["1"] * n)
            yield dict(case, w=None)

    # ---------------------------------------------------------------- implementation
    def impl(self, case):
        import fairlearn.metrics as fm
        m = ENC[case["enc"]]
        conv = (lambda v: np.array([m[x] for x in v]))
        yt, yp = conv(case["yt"]), conv(case["yp"])
        w = None if case["w"] is None else np.array([float(F(x)) for x in case["w"]])
        pos = None if case["pos"] is None else m[case["pos"]]
        out = {}
        vals = sorted(ENC[case["enc"]].keys())[:2]
        for pl in [case["pos"]] + [v for v in vals if v != case["pos"]]:
            plv = None if pl is None else m[pl]
            for k, fn in (("tpr", fm.true_positive_rate), ("fnr", fm.false_negative_rate),
                          ("fpr", fm.false_positive_rate), ("tnr", fm.true_negative_rate)):
                out[f"{k}@{pl}"] = call(fn, yt, yp, sample_weight=w, pos_label=plv)
        sp = 1 if pos is None else pos
        out["selrate"] = call(fm.selection_rate, yt, yp, pos_label=sp, sample_weight=w)
        if case["enc"] != "str":
            out["meanpred"] = call(fm.mean_prediction, yt, yp, sample_weight=w)
        out["count"] = call(fm.count, yt, yp)
        # shapes: the helper on arrays of several shapes, and selection_rate / mean_prediction on column-shaped arguments
        from fairlearn.utils._input_manipulations import _convert_to_ndarray_and_squeeze as squeeze
        n = len(case["yt"])
        for sh in self._shapes(case):
            try:
                out["sq:" + proto.lst(sh)] = ["shape", [int(d) for d in squeeze(np.zeros(sh)).shape]]
            except Exception as e:  # noqa: BLE001
                out["sq:" + proto.lst(sh)] = ["exc", type(e).__name__, str(e)[:60]]
        for tag, sh in (("vec", [n]), ("col", [n, 1])):
            wr = None if w is None else w.reshape(sh)
            out[f"selrate:{tag}"] = call(fm.selection_rate, yt, yp.reshape(sh), pos_label=sp, sample_weight=wr)
            if case["enc"] != "str":
                out[f"meanpred:{tag}"] = call(fm.mean_prediction, yt, yp.reshape(sh), sample_weight=wr)
        # element types: the same {0,1} predictions as a bool mask, narrow integers, float32 and a plain list (seeded C14c:
        # a unit-weight vector taking the dtype of y_pred turns the dot product into a logical OR / a wrapping int8 sum)
        if case["enc"] == "01":
            for dt in DTYPES:
                ypd = yp.tolist() if dt == "list" else yp.astype(dt)
                out[f"selrate:dt:{dt}"] = call(fm.selection_rate, yt, ypd, pos_label=sp, sample_weight=w)
                out[f"meanpred:dt:{dt}"] = call(fm.mean_prediction, yt, ypd, sample_weight=w)
        return out

    def _shapes(self, case):
        """array shapes for the helper, derived from the case content (the generator's rng stream is not touched)"""
        n = len(case["yt"])
        k = sum(1 for a, b in zip(case["yt"], case["yp"]) if a == b) % 3
        return [[n], [n, 1], [1, n], [1, 1, n], [n, 1, k], [k, n], [0], [], [1, 1], [1, k + 1, 1]]

    def _shape_keys(self, case):
        keys = ["sq:" + proto.lst(sh) for sh in self._shapes(case)]
        for tag in ("vec", "col"):
            keys.append(f"selrate:{tag}")
            if case["enc"] != "str":
                keys.append(f"meanpred:{tag}")
        return keys

    def _w(self, case):
        n = len(case["yt"])
        return [F(1)] * n if case["w"] is None else [F(x) for x in case["w"]]

    def _pls(self, case):
        vals = sorted(ENC[case["enc"]].keys())[:2]
        return [case["pos"]] + [v for v in vals if v != case["pos"]]

    def lines(self, case, impl_out):
        yt, yp, w = proto.lst(case["yt"]), proto.lst(case["yp"]), proto.lst(self._w(case))
        ls = []
        for pl in self._pls(case):
            for k in ("tpr", "fnr", "fpr", "tnr"):
                ls.append(f"rate {k} {yt} {yp} {w} {'none' if pl is None else pl}")
        ls.append(f"selrate {yt} {yp} {w} {1 if case['pos'] is None else case['pos']}")
        if case["enc"] != "str":
            ls.append(f"meanpred {yp} {w}")
        ls.append(f"count {yt} {yp}")
        # the same calls evaluated by the TRANSLATED source (Generated/BaseMetricsSrc.lean); `none` = sample_weight=None
        wn = "none" if case["w"] is None else w
        for pl in self._pls(case):
            for k in ("tpr", "fnr", "fpr", "tnr"):
                ls.append(f"bms.rate {k} {yt} {yp} {wn} {'none' if pl is None else pl}")
        ls.append(f"bms.selrate {yt} {yp} {wn} {1 if case['pos'] is None else case['pos']}")
        if case["enc"] != "str":
            ls.append(f"bms.meanpred {yt} {yp} {wn}")
        ls.append(f"bms.count {yt} {yp}")
        # the shape-level translation (Generated/SqueezeSrc.lean), same order as _shape_keys
        n = len(case["yt"])
        for sh in self._shapes(case):
            ls.append(f"nds.squeeze {proto.lst(sh)}")
        for sh in ([n], [n, 1]):
            ws = "none" if case["w"] is None else proto.lst(sh)
            ls.append(f"nds.selrate {proto.lst(sh)} {ws}")
            if case["enc"] != "str":
                ls.append(f"nds.meanpred {proto.lst(sh)} {ws}")
        return ls

    # ---------------------------------------------------------------- judging
    def judge(self, case, o, mo):
        probs = []
        if "crash" in o:
            return [Problem("correspondence", f"implementation crashed: {o}", "impl-total")]
        yt, yp, w = case["yt"], case["yp"], self._w(case)
        keys = [f"{k}@{pl}" for pl in self._pls(case) for k in ("tpr", "fnr", "fpr", "tnr")]
        keys.append("selrate")
        if case["enc"] != "str":
            keys.append("meanpred")
        keys.append("count")
        # -- oracle (first principles) -------------------------------------------------
        spec = {}
        for pl in self._pls(case):
            lab = spec_labels(yt, yp, pl)
            for k in ("tpr", "fnr", "fpr", "tnr"):
                spec[f"{k}@{pl}"] = lab if isinstance(lab, str) else spec_rate(k, yt, yp, w, *lab)
        sp = 1 if case["pos"] is None else case["pos"]
        spec["selrate"] = sum(wi for p, wi in zip(yp, w) if p == sp) / sum(w)
        if case["enc"] != "str":
            spec["meanpred"] = sum(F(p) * wi for p, wi in zip(yp, w)) / sum(w)
        spec["count"] = F(len(yt))
        for i, k in enumerate(keys):
            got = o[k]
            want = spec[k]
            if isinstance(want, str):
                if got[0] != "exc":
                    probs.append(Problem("property", f"{k}: input must be rejected ({want}) but returned {got}", "C14.rejects"))
                elif got[1] != "ValueError":
                    probs.append(Problem("correspondence", f"{k}: expected ValueError, got {got}", "C14.error-kind"))
            else:
                if got[0] == "exc":
                    probs.append(Problem("property", f"{k}: valid input raised {got}", "C14.accepts"))
                elif got[0] != "scalar":
                    probs.append(Problem("property", f"{k}: result is not a scalar: {got}", "C14.scalar_result"))
                elif far(got[1], float(want)):
                    probs.append(Problem("property", f"{k}: got {got[1]!r}, first-principles value {want}", "C14.value"))
            if mo is not None:
                ms = mo[i]
                if isinstance(want, str):
                    if ms != want:
                        probs.append(Problem("harness", f"{k}: model {ms} vs oracle {want}"))
                elif ms.startswith("err") or ms == "bad-op" or proto.p_rat(ms) != want:
                    probs.append(Problem("harness", f"{k}: model {ms} vs oracle {want}"))
                # translated source (bms.*): against the oracle and against the implementation
                if len(mo) >= 2 * len(keys):
                    ss = mo[len(keys) + i]
                    if ss == "bad-op":
                        probs.append(Problem("harness", f"{k}: driver rejected the bms line"))
                    elif isinstance(want, str):
                        if ss != want:
                            probs.append(src_problem(f"{k}: translated source gives {ss}, oracle {want}"))
                    elif ss.startswith("err") or proto.p_rat(ss) != want:
                        probs.append(src_problem(f"{k}: translated source gives {ss}, oracle {want}"))
                    if ss != "bad-op":
                        if ss.startswith("err"):
                            agree = got[0] == "exc"
                        else:
                            agree = got[0] == "scalar" and not far(got[1], float(proto.p_rat(ss)))
                        if not agree:
                            probs.append(Problem("correspondence", f"{k}: implementation {got} vs translated source {ss}",
                                                 "C14.source_translation"))
                else:
                    probs.append(Problem("harness", f"driver returned {len(mo)} lines for {2 * len(keys)}"))
        # -- shapes: "returned as a scalar" for column-shaped arguments too; the shape model against numpy / fairlearn
        skeys = self._shape_keys(case)
        for j, k in enumerate(skeys):
            got = o.get(k)
            if got is None:
                probs.append(Problem("correspondence", f"{k}: no implementation output", "impl-total"))
                continue
            if not k.startswith("sq:"):
                if got[0] == "exc":
                    probs.append(Problem("property", f"{k}: valid input (arguments of shape {'(n,1)' if k.endswith('col') else '(n,)'}) "
                                         f"raised {got}", "C14.accepts"))
                elif got[0] != "scalar":
                    probs.append(Problem("property", f"{k}: result is not a scalar: {got}", "C14.scalar_result"))
                elif far(got[1], float(spec[k.split(":")[0]])):
                    probs.append(Problem("property", f"{k}: got {got[1]!r}, first-principles value {spec[k.split(':')[0]]}", "C14.value"))
            elif got[0] == "shape" and len(got[1]) == 0:
                probs.append(Problem("property", f"{k}: _convert_to_ndarray_and_squeeze returned a 0-d array", "C14.scalar_result"))
            if mo is not None and len(mo) >= 2 * len(keys) + len(skeys):
                ms = mo[2 * len(keys) + j]
                if ms == "bad-op":
                    probs.append(Problem("harness", f"{k}: driver rejected the nds line"))
                elif ms == "err:unmodelled":
                    continue
                elif ms.startswith("err:"):
                    want_exc = {"err:type": "TypeError", "err:value": "ValueError"}[ms]
                    if got[0] != "exc" or got[1] != want_exc:
                        probs.append(Problem("correspondence", f"{k}: implementation {got} vs shape model {ms}", "C14.shape_model"))
                else:
                    shape = [] if ms == "-" else [int(t) for t in ms.split(",")]
                    if k.startswith("sq:"):
                        ok = got[0] == "shape" and got[1] == shape
                    else:
                        ok = (got[0] == "scalar") if shape == [] else (got[0] == "array" + str(tuple(shape)))
                    if not ok:
                        probs.append(Problem("correspondence", f"{k}: implementation {got} vs shape model {ms}", "C14.shape_model"))
            elif mo is not None:
                probs.append(Problem("harness", f"driver returned {len(mo)} lines for {2 * len(keys) + len(skeys)}"))
                break
        # element types of y_pred (oracle only; no model line: the model has one number type)
        if case["enc"] == "01":
            for dt in DTYPES:
                for base in ("selrate", "meanpred"):
                    k = f"{base}:dt:{dt}"
                    got = o.get(k)
                    if got is None:
                        probs.append(Problem("correspondence", f"{k}: no implementation output", "impl-total"))
                    elif got[0] == "exc":
                        probs.append(Problem("property", f"{k}: valid input (y_pred as {dt}) raised {got}", "C14.accepts"))
                    elif got[0] != "scalar":
                        probs.append(Problem("property", f"{k}: result is not a scalar: {got}", "C14.scalar_result"))
                    elif far(got[1], float(spec[base])):
                        probs.append(Problem("property", f"{k}: got {got[1]!r}, first-principles value {spec[base]}", "C14.value"))
        # relations between the impl's own outputs (the property's clauses)
        def val(k):
            g = o.get(k)
            return g[1] if g and g[0] == "scalar" else None
        for pl in self._pls(case):
            for a, b_, cls in (("tpr", "fnr", "pos"), ("tnr", "fpr", "neg")):
                x, y = val(f"{a}@{pl}"), val(f"{b_}@{pl}")
                if x is None or y is None:
                    continue
                lab = spec_labels(yt, yp, pl)
                target = lab[1] if cls == "pos" else lab[0]
                exists = any(t == target for t in yt)
                s = x + y
                if exists and far(s, 1):
                    probs.append(Problem("property", f"{a}+{b_} = {s} but a {cls} row exists (pos_label={pl})", "C14.tpr_add_fnr"))
                if not exists and (far(x, 0) or far(y, 0)):
                    probs.append(Problem("property", f"{a},{b_} = {x},{y} but no {cls} row exists", "C14.tpr_add_fnr"))
                for v in (x, y):
                    if not (-TOL <= v <= 1 + TOL):
                        probs.append(Problem("property", f"rate {v} outside [0,1]", "C14.rate_in_unit_interval"))
        pls = [p for p in self._pls(case) if p is not None]
        # two observed values (C14.pos_label_swap_public) or ONE observed value, the other class unobserved
        # (C14.pos_label_swap_single): both are inside the property's quantifier
        # (the single observed value must be one of the two pos_labels: switching between two UNOBSERVED classes leaves it the
        # negative class both times and exchanges nothing — false alarm found by the review's own x3-budget run and removed)
        obs = set(yt) | set(yp)
        if len(pls) == 2 and (len(obs) == 2 or (len(obs) == 1 and next(iter(obs)) in pls)):
            a, b_ = pls
            for k1, k2 in (("tpr", "tnr"), ("fpr", "fnr"), ("tnr", "tpr"), ("fnr", "fpr")):
                x, y = val(f"{k1}@{a}"), val(f"{k2}@{b_}")
                if x is not None and y is not None and far(x, y):
                    probs.append(Problem("property", f"{k1}@{a}={x} != {k2}@{b_}={y}", "C14.pos_label_swap"))
        return probs

    def signature(self, case, o):
        n = len(case["yt"])
        tags = [f"n={n}", f"enc={case['enc']}", "weighted" if case["w"] else "unweighted",
                f"distinct_labels={len(set(case['yt']) | set(case['yp']))}",
                "pos=None" if case["pos"] is None else "pos=given"]
        if any(isinstance(v, list) and v and v[0] == "exc" for v in o.values()):
            tags.append("rejected")
        key = (case["enc"], tuple(case["yt"]), tuple(case["yp"]), tuple(case["w"] or ()), case["pos"])
        return key, (n >= 2 or case["w"] is not None), tags
