"""C19 — estimator life cycle: fit depends on parameters and data, not on call history.

A case is (estimator class, configuration, data pair, operation sequence over {f1, f2, p<seed>, k, c}).
`impl` runs the sequence on the real estimator and records, per operation: what happened (returned self /
None / raised <kind> / ok), which freshly fitted twin the estimator now predicts like (U = unfitted,
D1 / D2 = fresh twin on that data, X = none of them, B.<kind> = predict raises <kind>), whether the state
is the same as before the operation, whether predict repeated its answer, which constructor parameters of
get_params(deep=False) changed.  The oracle is the specification automaton (written here in Python,
independently of Lean): after `fit(D)` the estimator equals the fresh twin on D, fit returned self, no
parameter changed; predict / pickle leave the state alone; clone gives an unfitted estimator.  The Lean
driver gets the same sequence + the rule vector (probed by replaying the 2-operation witnesses of
Properties/C19.lean on fairlearn) and returns the state machine's view, which must coincide with the
observations operation by operation.
"""
import itertools
import os
import pickle

import numpy as np
import pandas as pd
from sklearn.base import BaseEstimator, ClassifierMixin, RegressorMixin, clone
from sklearn.exceptions import NotFittedError

from ..core import Check, Problem, register

# Tolerances (review R2): every comparison is between two runs of the SAME deterministic computation in the same process
# (refit vs fresh twin, before vs after predict / pickle, repeated predict).  Measured on the clean tree (/repo 897f58c+,
# seed 0: all layout + set_params cases and 290 random/exhaustive sequences, 3997 "same" and 1495 "different" comparisons):
# max |a-b| over comparisons judged "same" = 0.0 exactly for every class (CR, TO, GS, EG, torch adversarial); min |a-b|
# over comparisons judged "different" = 8.0e-3 (adversarial), 7.1e-2 .. 2.1e-1 (others).  100 x the measured maximum is
# 0, so equality is exact (np.allclose with rtol = atol = 0, NaN = NaN).  The former 1e-9 / 1e-6 were 9 / 6 orders of
# magnitude wider than anything observed.
ATOL = 0.0
ATOL_TORCH = 0.0
ALPHABET = ["f1", "f2", "p5", "k", "c"]


# ----------------------------------------------------------------------------------------------
# base learners (exact, tiny, deterministic).  `sticky=True` makes the *object* history dependent:
# from its second fit on it answers differently.  Every mitigator must clone / deep-copy the wrapped
# estimator per fit, so under correct code the sticky branch is never taken.
# ----------------------------------------------------------------------------------------------
class Stump(ClassifierMixin, BaseEstimator):
    def __init__(self, sticky=False):
        self.sticky = sticky

    def fit(self, X, y, sample_weight=None):
        X = np.asarray(X, dtype=float)
        y = np.asarray(y).astype(int).ravel()
        w = np.ones(len(y)) if sample_weight is None else np.asarray(sample_weight, dtype=float).ravel()
        self.n_fits_ = getattr(self, "n_fits_", 0) + 1
        best = None
        for j in range(X.shape[1]):
            col = X[:, j]
            for t in np.unique(col):
                ge = col >= t
                e1 = float(w[ge != (y == 1)].sum())     # predict 1 iff x >= t
                e0 = float(w[ge == (y == 1)].sum())     # predict 1 iff x <  t
                for err, s in ((e1, 0), (e0, 1)):
                    k = (err, j, float(t), s)
                    if best is None or k < best:
                        best = k
        _, self.j_, self.t_, self.s_ = best
        if self.sticky and self.n_fits_ > 1:
            self.s_ = 1 - self.s_
        self.classes_ = np.array([0, 1])
        return self

    def predict(self, X):
        X = np.asarray(X, dtype=float)
        return ((X[:, self.j_] >= self.t_).astype(int)) ^ self.s_

    def decision_function(self, X):
        X = np.asarray(X, dtype=float)
        return (2.0 * self.predict(X) - 1.0) * (1.0 + X[:, (self.j_ + 1) % X.shape[1]] / 8.0)

    def predict_proba(self, X):
        X = np.asarray(X, dtype=float)
        p = 0.25 + 0.5 * self.predict(X) + X[:, (self.j_ + 1) % X.shape[1]] / 32.0
        return np.c_[1 - p, p]


class MeanReg(RegressorMixin, BaseEstimator):
    """weighted least squares on one feature (closed form), same sticky switch"""

    def __init__(self, sticky=False):
        self.sticky = sticky

    def fit(self, X, y, sample_weight=None):
        X = np.asarray(X, dtype=float)
        y = np.asarray(y, dtype=float).ravel()
        w = np.ones(len(y)) if sample_weight is None else np.asarray(sample_weight, dtype=float).ravel()
        self.n_fits_ = getattr(self, "n_fits_", 0) + 1
        sw = w.sum() if w.sum() != 0 else 1.0
        mx, my = (w * X[:, 0]).sum() / sw, (w * y).sum() / sw
        vx = (w * (X[:, 0] - mx) ** 2).sum()
        self.b_ = 0.0 if vx == 0 else (w * (X[:, 0] - mx) * (y - my)).sum() / vx
        self.a_ = my - self.b_ * mx
        if self.sticky and self.n_fits_ > 1:
            self.a_ += 1.0
        return self

    def predict(self, X):
        return self.a_ + self.b_ * np.asarray(X, dtype=float)[:, 0]


# ----------------------------------------------------------------------------------------------
# data: fixed small exact data sets; pair k = (D1, D2); both labels in both groups
# ----------------------------------------------------------------------------------------------
N_ROWS = 20
N_PAIRS = 6
_DATA = {}
# pairs 3-5: D1 and D2 differ in the SET of sensitive-feature values (D2 subset of D1, D2 superset of D1, disjoint), in the
# number of rows and in the label balance: (groups of D1, groups of D2, rows of D1, rows of D2, P(y=1) in D1, in D2)
LAYOUTS = {3: ((0, 1, 2), (0, 1), 24, 14, 0.5, 0.3),
           4: ((0, 1), (0, 1, 2), 16, 26, 0.35, 0.6),
           5: ((0, 1), (2, 3), 20, 12, 0.5, 0.5)}
LAYOUT_PAIRS = tuple(sorted(LAYOUTS))


def layout_dataset(pair, which, width):
    groups = LAYOUTS[pair][which - 1]
    n = LAYOUTS[pair][which + 1]
    p1 = LAYOUTS[pair][which + 3]
    r = np.random.RandomState(5000 + 31 * pair + which + 101 * width)
    X = r.randint(0, 6, size=(n, width)).astype(float)
    A = np.array([groups[i % len(groups)] for i in range(n)])
    # label driven by one column (another one in D2), shifted per group, thresholded to the wanted balance
    col = X[:, which - 1] * (1 if which == 1 else -1) + 1.5 * (A % 2) + r.randint(0, 3, size=n)
    thr = np.quantile(col, 1 - p1)
    y = (col > thr).astype(int)
    for g in groups:                       # both labels in every group (ThresholdOptimizer needs them)
        rows = np.where(A == g)[0]
        y[rows[0]], y[rows[1]] = 0, 1
    if which == 2:
        X1 = dataset(pair, 1, 3)["X"]
        for j in range(min(width, 3)):     # no column of D2 has the mean of the same column of D1
            k = 0
            while abs(X[:, j].mean() - X1[:, j].mean()) < 1e-9:
                X[k, j] = (X[k, j] + 1) % 6
                k += 1
    yr = (X[:, which - 1] / 8.0 + (A % 2) / 4.0 + r.randint(0, 3, size=n) / 16.0)
    return {"X": X, "y": y, "A": A, "yr": yr, "id": which, "width": width}


def dataset(pair, which, width=3):
    key = (pair, which, width)
    if key not in _DATA and pair in LAYOUTS:
        _DATA[key] = layout_dataset(pair, which, width)
    if key not in _DATA:
        # (the second data sets of pairs 0 and 1 are exchanged so that pair 0 combines an exactly separable D1,
        #  automatic nu = 0, with a D2 whose duality gap lies below its own automatic nu: F5c becomes observable)
        sp = {0: 1, 1: 0}.get(pair, pair) if which == 2 else pair
        r = np.random.RandomState(1000 + 17 * sp + which + 101 * width)
        X = r.randint(0, 6, size=(N_ROWS, width)).astype(float)
        A = r.randint(0, 2, size=N_ROWS)
        if which == 1:
            # D1: label driven by column 0 and the group; pair 0: exactly a stump of column 0 (automatic nu = 0)
            noise = 0 if pair == 0 else r.randint(0, 4, size=N_ROWS)
            y = ((X[:, 0] + (0 if pair == 0 else 2 * A) + noise) > (2 if pair == 0 else 4)).astype(int)
        else:
            # D2: label driven (negatively) by column 1 and the other group
            y = ((X[:, 1] + 2 * (1 - A) + r.randint(0, 3, size=N_ROWS)) < 4).astype(int)
        y[:4] = [0, 1, 0, 1]
        A[:4] = [0, 0, 1, 1]
        if which == 1 and pair == 0:
            X[:4, 0] = [0, 5, 1, 4]
        if which == 2:
            # no column of D2 has the mean of the same column of D1 (a latch on a mean must show)
            X1 = dataset(pair, 1, 3)["X"]
            for j in range(min(width, 3)):
                k = 4
                while X[:, j].sum() == X1[:, j].sum():
                    X[k, j] = (X[k, j] + 1) % 6
                    k += 1
        yr = (X[:, which - 1] / 8.0 + A / 4.0 + r.randint(0, 3, size=N_ROWS) / 16.0)
        _DATA[key] = {"X": X, "y": y, "A": A, "yr": yr, "id": which, "width": width}
    return _DATA[key]


def test_matrix(pair, width):
    return np.vstack([dataset(pair, 1, width)["X"], dataset(pair, 2, width)["X"]])


def test_groups(pair, width):
    return np.concatenate([dataset(pair, 1, width)["A"], dataset(pair, 2, width)["A"]])


def test_blocks(ad, cfg, pair):
    """[(X, A)]: the rows of D1 and of D2 as prediction inputs; one block if both have the same number of columns, else two"""
    w1, w2 = ad.widths(cfg, pair)
    d1, d2 = dataset(pair, 1, w1), dataset(pair, 2, w2)
    if w1 == w2:
        return [(np.vstack([d1["X"], d2["X"]]), np.concatenate([d1["A"], d2["A"]]))]
    return [(d1["X"], d1["A"]), (d2["X"], d2["A"])]


def on_blocks(blocks, f):
    """apply f(X, A) to every block and concatenate the flattened answers.  A block that raises (e.g. the rows of the data
    set with the other number of columns) contributes a marker derived from the exception kind; if every block raises, the
    first exception is the answer (an unfitted / broken estimator)."""
    parts, first = [], None
    for X, A in blocks:
        try:
            parts.append(np.asarray(f(X, A), dtype=float).ravel())
        except Exception as e:  # noqa: BLE001
            first = first or e
            parts.append(np.full(2, -1000.0 - sum(map(ord, type(e).__name__))))
    if first is not None and len([1 for q in parts if q.size == 2 and q[0] <= -1000.0]) == len(blocks):
        raise first
    return np.concatenate(parts)


# ----------------------------------------------------------------------------------------------
# adapters: how to build / fit / probe each estimator class
# ----------------------------------------------------------------------------------------------
def _arr(v):
    if isinstance(v, (pd.DataFrame, pd.Series)):
        v = v.values
    return np.asarray(v, dtype=float)


def _plain(v):
    return v is None or isinstance(v, (bool, int, float, str, np.integer, np.floating)) or (
        isinstance(v, (list, tuple)) and len(v) <= 16 and all(_plain(x) for x in v))


def generic_deep(prefix, obj):
    out = {}
    d = getattr(obj, "__dict__", None)
    if d is None:
        return out
    out[prefix + ".vars"] = tuple(sorted(d))
    for k, v in d.items():
        if _plain(v):
            out[f"{prefix}.{k}"] = repr(v)
        elif isinstance(v, np.ndarray) and v.size <= 4096 and v.dtype != object:
            out[f"{prefix}.{k}"] = v.copy()
    return out


def deep_changed(a, b):
    names = sorted(set(a) ^ set(b))
    for k in sorted(set(a) & set(b)):
        x, y = a[k], b[k]
        if isinstance(x, np.ndarray) or isinstance(y, np.ndarray):
            same = isinstance(x, np.ndarray) and isinstance(y, np.ndarray) and x.shape == y.shape and bool(np.array_equal(x, y, equal_nan=True))
        else:
            same = x == y
        if not same:
            names.append(k)
    return names


class Adapter:
    name = "?"
    lean = "?"
    cfgs = ()
    quick_cfgs = ()
    atol = ATOL
    claims_pickle = True

    wide_on_layout = True    # pair 4: D2 also has one more feature column (where the estimator / container allows)

    def widths(self, cfg, pair=0):
        return (3, 4) if (pair == 4 and self.wide_on_layout and self.allows_wide(cfg)) else (3, 3)

    def allows_wide(self, cfg):
        return True

    def data(self, cfg, pair, which):
        return dataset(pair, which, self.widths(cfg, pair)[which - 1])

    def make(self, cfg):
        raise NotImplementedError

    def fit(self, est, cfg, d):
        raise NotImplementedError

    def probes(self, est, cfg, pair, seed):
        """name -> thunk; the public prediction entry points on fixed test inputs"""
        raise NotImplementedError

    def attrs(self, est):
        return {}

    def deep(self, est):
        """name -> value (hashable or ndarray): the state BEHIND the prediction entry points that a prediction must leave as
        it is, compared exactly before / after every prediction call.  Generic part: the attribute names of the estimator and
        every attribute with a plain value (a call counter, a cached flag); TO / ADV add the state of the helper object."""
        return generic_deep("est", est)

    def lean_cfg(self, cfg):
        return "-"

    def lean_name(self, cfg):
        return self.lean

    def rule_bits(self, rules):
        return "-"

    def repaired_bits(self):
        return "-"

    # set_params histories: the tracked constructor parameter and its second value
    alt = ("?", None)

    def make_alt(self, cfg):
        """a FRESH estimator constructed (not set_params, not clone) with the second value of the tracked parameter"""
        e = self.make(cfg)
        params = dict(e.get_params(deep=False))
        params[self.alt[0]] = self.alt[1]
        return type(e)(**params)


class TOAdapter(Adapter):
    name, lean = "TO", "to"
    alt = ("grid_size", 7)
    cfgs = ("dp-proba", "eo-sticky", "tpr-df", "prefit")
    quick_cfgs = ("dp-proba", "eo-sticky", "prefit")

    def lean_name(self, cfg):
        return "topre" if cfg == "prefit" else "to"

    def make(self, cfg):
        from fairlearn.postprocessing import ThresholdOptimizer
        if cfg == "prefit":
            # the user's own, already fitted estimator (fitted once, on a data set of its own); sticky: a refit would show
            base = Stump(sticky=True)
            d0 = dataset(2, 2)
            base.fit(d0["X"], d0["y"])
            return ThresholdOptimizer(estimator=base, constraints="demographic_parity", objective="accuracy_score",
                                      grid_size=20, prefit=True, predict_method="predict_proba")
        if cfg == "dp-proba":
            return ThresholdOptimizer(estimator=Stump(), constraints="demographic_parity",
                                      objective="accuracy_score", grid_size=20, predict_method="predict_proba")
        if cfg == "eo-sticky":
            return ThresholdOptimizer(estimator=Stump(sticky=True), constraints="equalized_odds",
                                      objective="balanced_accuracy_score", grid_size=16, flip=True,
                                      predict_method="decision_function")
        from sklearn.linear_model import LogisticRegression
        return ThresholdOptimizer(estimator=LogisticRegression(warm_start=True, max_iter=3),
                                  constraints="true_positive_rate_parity", objective="accuracy_score",
                                  grid_size=10, predict_method="auto")

    def _xa(self, cfg, X, A):
        if cfg == "tpr-df":
            return pd.DataFrame(X, columns=["a", "b", "c"]), pd.Series(A, name="g")
        return X, A

    def fit(self, est, cfg, d):
        X, A = self._xa(cfg, d["X"], d["A"])
        return est.fit(X, d["y"], sensitive_features=A)

    def allows_wide(self, cfg):
        return cfg != "tpr-df"     # named DataFrame columns a, b, c

    def probes(self, est, cfg, pair, seed):
        blocks = [self._xa(cfg, X, A) for X, A in test_blocks(self, cfg, pair)]
        return {"pmf": lambda: on_blocks(blocks, lambda X, A: _arr(est._pmf_predict(X, sensitive_features=A))),
                "predict": lambda: on_blocks(blocks, lambda X, A: _arr(est.predict(X, sensitive_features=A, random_state=seed)))}

    def attrs(self, est):
        # the fitted dictionary's KEY SET: one entry per sensitive-feature value of the data of the last fit
        return {"interpolation_keys": lambda: _arr(sorted(float(k) for k in est.interpolated_thresholder_.interpolation_dict))}

    def deep(self, est):
        # the helper object `interpolated_thresholder_` (InterpolatedThresholder): its attributes, every field of every entry of
        # its interpolation_dict (p0, p1, the two threshold operations, p_ignore, prediction_constant), and the attributes
        # of the (cloned) base estimator it predicts with
        out = generic_deep("est", est)
        it = getattr(est, "interpolated_thresholder_", None)
        if it is None:
            return out
        out.update(generic_deep("helper", it))
        d = getattr(it, "interpolation_dict", None)
        if isinstance(d, dict):
            out["helper.interpolation_dict.keys"] = tuple(sorted(repr(k) for k in d))
            for key in sorted(d, key=repr):
                b = d[key]
                out[f"helper.interpolation_dict[{key!r}].fields"] = tuple(sorted(b))
                for f in sorted(b):
                    v = b[f]
                    if hasattr(v, "operator") and hasattr(v, "threshold"):
                        v = (v.operator, float(v.threshold))
                    out[f"helper.interpolation_dict[{key!r}].{f}"] = repr(v)
        base = getattr(it, "estimator_", None)
        if base is not None:
            out.update(generic_deep("helper.estimator_", base))
        return out

    def lean_cfg(self, cfg):
        return "1"


class CRAdapter(Adapter):
    name, lean = "CR", "cr"
    alt = ("alpha", 0.25)
    cfgs = ("nd-same", "nd-wide", "df-wide", "df-moved")
    quick_cfgs = ("nd-same", "nd-wide", "df-wide", "df-moved")

    def widths(self, cfg, pair=0):
        return (3, 3) if cfg in ("nd-same", "df-moved") else (3, 4)

    def make(self, cfg):
        from fairlearn.preprocessing import CorrelationRemover
        if cfg == "nd-same":
            return CorrelationRemover(sensitive_feature_ids=[0], alpha=1.0)
        if cfg == "nd-wide":
            return CorrelationRemover(sensitive_feature_ids=[0, 1], alpha=0.5)
        return CorrelationRemover(sensitive_feature_ids=["a"], alpha=0.75)

    def _x(self, cfg, X, which=1):
        if cfg == "df-wide":
            return pd.DataFrame(X, columns=list("abcd")[:X.shape[1]])
        if cfg == "df-moved":
            # same width, but the named sensitive column sits at another position in the second data set:
            # a column lookup kept from an earlier fit must show
            return pd.DataFrame(X, columns=["a", "b", "c"] if which == 1 else ["b", "a", "c"])
        return X

    def fit(self, est, cfg, d):
        return est.fit(self._x(cfg, d["X"], d["id"]))

    def probes(self, est, cfg, pair, seed):
        w1, w2 = self.widths(cfg, pair)
        X1, X2 = self._x(cfg, dataset(pair, 1, w1)["X"], 1), self._x(cfg, dataset(pair, 2, w2)["X"], 2)
        return {"transform1": lambda: _arr(est.transform(X1)), "transform2": lambda: _arr(est.transform(X2))}

    def attrs(self, est):
        return {"beta": lambda: _arr(est.beta_).ravel()}

    def rule_bits(self, rules):
        return rules["F5e"]

    def repaired_bits(self):
        return "1"


class GSAdapter(Adapter):
    name, lean = "GS", "gs"
    alt = ("constraint_weight", 1.0)
    cfgs = ("dp-stump", "eo-sticky", "bgl-reg")
    quick_cfgs = ("dp-stump", "eo-sticky")

    def make(self, cfg):
        from fairlearn.reductions import (BoundedGroupLoss, DemographicParity, EqualizedOdds, GridSearch,
                                          SquareLoss)
        if cfg == "dp-stump":
            return GridSearch(Stump(), DemographicParity(), grid_size=3)
        if cfg == "eo-sticky":
            return GridSearch(Stump(sticky=True), EqualizedOdds(), grid_size=4, constraint_weight=0.25,
                              grid_limit=1.5)
        return GridSearch(MeanReg(sticky=True), BoundedGroupLoss(SquareLoss(0.0, 2.0)), grid_size=3)

    def fit(self, est, cfg, d):
        y = d["yr"] if cfg == "bgl-reg" else d["y"]
        return est.fit(d["X"], y, sensitive_features=d["A"])

    def probes(self, est, cfg, pair, seed):
        blocks = test_blocks(self, cfg, pair)
        return {"predict": lambda: on_blocks(blocks, lambda X, A: _arr(est.predict(X)))}

    def attrs(self, est):
        return {"best_idx": lambda: _arr([est.best_idx_]),
                "lambda_vecs": lambda: _arr(est.lambda_vecs_.values).ravel(),
                "n_predictors": lambda: _arr([len(est.predictors_), est.lambda_vecs_.shape[0], est.lambda_vecs_.shape[1]]),
                "lambda_index_groups": lambda: _arr(sorted({float(t[-1]) for t in est.lambda_vecs_.index}))}

    def rule_bits(self, rules):
        return rules["F5a"] + rules["F5b.GS"]

    def repaired_bits(self):
        return "11"


class EGAdapter(Adapter):
    name, lean = "EG", "eg"
    alt = ("max_iter", 5)
    cfgs = ("dp-nuNone", "eo-sticky-nu", "tpr-noLP")
    quick_cfgs = ("dp-nuNone", "eo-sticky-nu")

    def make(self, cfg, nu="cfg"):
        from fairlearn.reductions import (DemographicParity, EqualizedOdds, ErrorRate, ExponentiatedGradient,
                                          TruePositiveRateParity)
        if cfg == "dp-nuNone":
            return ExponentiatedGradient(Stump(), DemographicParity(), max_iter=3,
                                         nu=None if nu == "cfg" else nu)
        if cfg == "eo-sticky-nu":
            return ExponentiatedGradient(Stump(sticky=True), EqualizedOdds(), objective=ErrorRate(), max_iter=2,
                                         nu=0.001 if nu == "cfg" else nu, eps=0.05)
        return ExponentiatedGradient(Stump(), TruePositiveRateParity(), max_iter=3, run_linprog_step=False,
                                     nu=None if nu == "cfg" else nu, eta0=1.0)

    def nu_given(self, cfg):
        return cfg == "eo-sticky-nu"

    def fit(self, est, cfg, d):
        return est.fit(d["X"], d["y"], sensitive_features=d["A"])

    def probes(self, est, cfg, pair, seed):
        blocks = test_blocks(self, cfg, pair)
        return {"pmf": lambda: on_blocks(blocks, lambda X, A: _arr(est._pmf_predict(X))),
                "predict": lambda: on_blocks(blocks, lambda X, A: _arr(est.predict(X, random_state=seed)))}

    def attrs(self, est):
        return {"weights": lambda: _arr(est.weights_.sort_index().values),
                "n_oracle_calls": lambda: _arr([est.n_oracle_calls_]),
                "n_predictors": lambda: _arr([len(est.predictors_), est.lambda_vecs_.shape[0], est.lambda_vecs_.shape[1]]),
                "lambda_index_groups": lambda: _arr(sorted({float(t[-1]) for t in est.lambda_vecs_.index}))}

    def lean_cfg(self, cfg):
        return "1" if self.nu_given(cfg) else "0"

    def rule_bits(self, rules):
        return rules["F5b.EG"] + rules["F5c"]

    def repaired_bits(self):
        return "11"


class ADVAdapter(Adapter):
    name, lean = "ADV", "adv"
    alt = ("learning_rate", 0.01)
    cfgs = ("clf-dp", "reg-eo-shuffle", "clf-eo-sgd")
    quick_cfgs = ("clf-dp", "reg-eo-shuffle")
    atol = ATOL_TORCH
    claims_pickle = False

    def make(self, cfg):
        import torch
        torch.set_num_threads(1)
        from fairlearn.adversarial import AdversarialFairnessClassifier, AdversarialFairnessRegressor
        if cfg == "clf-dp":
            return AdversarialFairnessClassifier(backend="torch", predictor_model=[3], adversary_model=[2],
                                                 epochs=1, batch_size=10, learning_rate=0.05, random_state=7,
                                                 warm_start=False)
        if cfg == "clf-dropout":
            # a predictor network whose forward pass depends on the train / eval MODE of the module (Dropout): a prediction in
            # train mode is random, so `evaluate` leaving / putting the network in train mode shows as a non-repeating predict
            return AdversarialFairnessClassifier(backend="torch", predictor_model=[6, torch.nn.Dropout(0.5), 4],
                                                 adversary_model=[2], epochs=1, batch_size=10, learning_rate=0.05,
                                                 random_state=5, warm_start=False)
        if cfg == "reg-eo-shuffle":
            return AdversarialFairnessRegressor(backend="torch", predictor_model=[3], adversary_model=[2],
                                                constraints="equalized_odds", epochs=2, batch_size=8, shuffle=True,
                                                learning_rate=0.05, random_state=3, warm_start=False)
        return AdversarialFairnessClassifier(backend="torch", predictor_model=[2], adversary_model=[2],
                                             constraints="equalized_odds", predictor_optimizer="SGD",
                                             adversary_optimizer="SGD", epochs=2, batch_size=6,
                                             learning_rate=0.1, alpha=0.5, random_state=11, warm_start=False)

    def fit(self, est, cfg, d):
        y = d["yr"] if cfg.startswith("reg") else d["y"]
        return est.fit(d["X"], y, sensitive_features=d["A"])

    def probes(self, est, cfg, pair, seed):
        blocks = test_blocks(self, cfg, pair)
        return {"raw": lambda: on_blocks(blocks, lambda X, A: _arr(est._raw_predict(X))),
                "predict": lambda: on_blocks(blocks, lambda X, A: _arr(est.predict(X)))}

    def deep(self, est):
        # the helper object `backendEngine_`: its attributes, every parameter / buffer of both networks and the state of both
        # optimisers (step counters, moment estimates).  NOT compared: `module.training` — the train / eval mode flag is
        # scratch state by the decision documented in Model/LifecycleSrc.lean (every forward pass is preceded by a mode
        # selection); its observable effect is compared through the repeated predictions of configuration clf-dropout.
        out = generic_deep("est", est)
        eng = getattr(est, "backendEngine_", None)
        if eng is None:
            return out
        out.update(generic_deep("engine", eng))
        for name in ("predictor_model", "adversary_model"):
            m = getattr(eng, name, None)
            if m is not None and hasattr(m, "state_dict"):
                for k, v in m.state_dict().items():
                    out[f"engine.{name}.{k}"] = v.detach().cpu().numpy().copy()
                for k, v in m.named_parameters():
                    out[f"engine.{name}.{k}.requires_grad"] = bool(v.requires_grad)
        for name in ("predictor_optimizer", "adversary_optimizer"):
            opt = getattr(eng, name, None)
            if opt is not None and hasattr(opt, "state_dict"):
                sd = opt.state_dict()
                for i, st in sorted(sd.get("state", {}).items(), key=lambda kv: repr(kv[0])):
                    for k, v in sorted(st.items()):
                        out[f"engine.{name}.state[{i}].{k}"] = np.asarray(v.detach().cpu().numpy() if hasattr(v, "detach") else v).copy()
                for j, g in enumerate(sd.get("param_groups", [])):
                    out[f"engine.{name}.group[{j}]"] = repr(sorted((k, v) for k, v in g.items() if _plain(v)))
        return out

    def lean_cfg(self, cfg):
        return "0"   # warm_start=False in every configuration (the property's quantifier)

    def rule_bits(self, rules):
        return rules["F5d"]

    def repaired_bits(self):
        return "1"


PARAM_CFG = {"TO": "dp-proba", "CR": "nd-same", "GS": "dp-stump", "EG": "eo-sticky-nu", "ADV": "clf-dp"}
NU_NONE_CFGS = ("dp-nuNone", "tpr-noLP")     # F5c interferes with the set_params histories: kept out of that family
ADAPTERS = {a.name: a for a in (TOAdapter(), CRAdapter(), GSAdapter(), EGAdapter(), ADVAdapter())}
ORDER = ("CR", "TO", "GS", "ADV", "EG")


# ----------------------------------------------------------------------------------------------
# observation helpers
# ----------------------------------------------------------------------------------------------
def observe_call(thunk):
    try:
        v = thunk()
    except NotFittedError:
        return ("exc", "NotFittedError")
    except Exception as e:  # noqa: BLE001  (any exception of a life-cycle call is an observation)
        return ("exc", type(e).__name__)
    return ("arr", np.asarray(v, dtype=float))


def same_value(a, b, atol):
    if a[0] != b[0]:
        return False
    if a[0] == "exc":
        return a[1] == b[1]
    return a[1].shape == b[1].shape and bool(np.allclose(a[1], b[1], rtol=0.0, atol=atol, equal_nan=True))


def snapshot(ad, est, cfg, pair, seed=11):
    out = {k: observe_call(t) for k, t in ad.probes(est, cfg, pair, seed).items()}
    for k, t in ad.attrs(est).items():
        out["attr:" + k] = observe_call(t)
    return out


def same_snapshot(a, b, atol):
    return a.keys() == b.keys() and all(same_value(a[k], b[k], atol) for k in a)


def method_kinds(snap):
    return [v[1] if v[0] == "exc" else "ok" for k, v in sorted(snap.items()) if not k.startswith("attr:")]


def _simple(v):
    return v is None or isinstance(v, (bool, int, float, str)) or (
        isinstance(v, (list, tuple)) and all(_simple(x) for x in v))


def params_changed(before, after, same_object):
    """names of constructor parameters whose reported value changed"""
    names = []
    for k in sorted(set(before) | set(after)):
        if k not in before or k not in after:
            names.append(k)
            continue
        a, b = before[k], after[k]
        if _simple(a) or _simple(b):
            if not (_simple(a) and _simple(b) and type(a) is type(b) and a == b):
                names.append(k)
        elif same_object:
            if a is not b:
                names.append(k)
        else:
            if type(a) is not type(b):
                names.append(k)
            elif hasattr(a, "get_params") and repr(a.get_params()) != repr(b.get_params()):
                names.append(k)
    return names


def nested_fits(est):
    """how often the object passed as `estimator` has been fitted (the test learners count it)"""
    b = est.get_params(deep=False).get("estimator")
    return getattr(b, "n_fits_", None)


def nested_state(est):
    """attribute names of the object passed as `estimator` (a mitigator must fit clones, never the user's object)"""
    b = est.get_params(deep=False).get("estimator")
    return None if b is None or not hasattr(b, "__dict__") else tuple(sorted(vars(b)))


# ----------------------------------------------------------------------------------------------
# twins, probed rules (per process caches)
# ----------------------------------------------------------------------------------------------
_TWINS = {}
_RULES = None
_STATIC_REPORTED = set()     # source-level correspondence relations already reported in this process


def probe_rules():
    """Replay the 2-operation witnesses of Properties/C19.lean on fairlearn: '0' = today's rule observed
    (the witness reproduces), '1' = repaired rule observed."""
    global _RULES
    if _RULES is not None:
        return _RULES
    rules = {}
    gs, eg, cr, adv = ADAPTERS["GS"], ADAPTERS["EG"], ADAPTERS["CR"], ADAPTERS["ADV"]
    # F5a  gs_current_fit_returns_none
    e = gs.make("dp-stump")
    r = gs.fit(e, "dp-stump", gs.data("dp-stump", 0, 1))
    rules["F5a"] = "0" if r is None else "1"
    # F5b  gs_current_not_history_free / eg_current_not_history_free: fit D1; fit D2 raises AssertionError.
    #      '0' latched (today), '1' repaired by loading a copy per fit (the user's moment stays unloaded),
    #      '2' repaired by a re-entrant load_data (the user's moment is loaded in place)
    for key, ad, cfg in (("F5b.GS", gs, "dp-stump"), ("F5b.EG", eg, "eo-sticky-nu")):
        e = ad.make(cfg)
        ad.fit(e, cfg, ad.data(cfg, 0, 1))
        try:
            ad.fit(e, cfg, ad.data(cfg, 0, 2))
            rules[key] = "2" if getattr(e.constraints, "data_loaded", False) else "1"
        except AssertionError:
            rules[key] = "0"
        except Exception:  # noqa: BLE001
            rules[key] = "1"
    # F5c  eg_current_nu_overwritten
    e = eg.make("dp-nuNone")
    eg.fit(e, "dp-nuNone", eg.data("dp-nuNone", 0, 1))
    rules["F5c"] = "1" if e.get_params(deep=False)["nu"] is None else "0"
    # F5e  cr_current_not_history_free: fit D1 (3 columns); fit D2 (4 columns) raises ValueError
    e = cr.make("nd-wide")
    cr.fit(e, "nd-wide", cr.data("nd-wide", 0, 1))
    try:
        cr.fit(e, "nd-wide", cr.data("nd-wide", 0, 2))
        rules["F5e"] = "1"
    except ValueError:
        rules["F5e"] = "0"
    # F5d  adv_current_not_history_free: fit D1; fit D2 differs from a fresh fit on D2
    cfg = "clf-dp"
    e = adv.make(cfg)
    adv.fit(e, cfg, adv.data(cfg, 0, 1))
    adv.fit(e, cfg, adv.data(cfg, 0, 2))
    f = adv.make(cfg)
    adv.fit(f, cfg, adv.data(cfg, 0, 2))
    rules["F5d"] = "1" if same_snapshot(snapshot(adv, e, cfg, 0), snapshot(adv, f, cfg, 0), adv.atol) else "0"
    # static path found by the lifter (fitHistoryReads CR = ["lookup_"]): `_create_lookup` returns early for 1-d input
    # without setting `lookup_`.  It is dead iff fit on 1-d input raises, fresh and after an earlier fit.
    dead = True
    for prior in (False, True):
        e = cr.make("nd-same")
        if prior:
            cr.fit(e, "nd-same", cr.data("nd-same", 0, 1))
        try:
            e.fit(np.array([1.0, 2.0, 3.0, 5.0]))
            dead = False
        except ValueError:
            pass
        except Exception:  # noqa: BLE001
            dead = False
    rules["cr1d"] = "dead" if dead else "live"
    rules.update(probe_helper_trace())
    _RULES = rules
    return rules


HELPER_CLASSES = {"TO": ("dp-proba", ("InterpolatedThresholder",)),
                  "ADV": ("clf-dp", ("BackendEngine", "PytorchEngine", "TensorflowEngine"))}


def probe_helper_trace():
    """which methods of the helper classes are ENTERED while the prediction entry points of a fitted ThresholdOptimizer / torch
    adversarial classifier run (sys.setprofile); the lifted closure `helperPredictClosure` must contain every one of them"""
    import sys
    out = {}
    for name, (cfg, classes) in HELPER_CLASSES.items():
        ad = ADAPTERS[name]
        est = ad.make(cfg)
        ad.fit(est, cfg, ad.data(cfg, 0, 1))
        seen = set()

        def prof(frame, event, arg, seen=seen, classes=classes):
            if event == "call":
                q = getattr(frame.f_code, "co_qualname", frame.f_code.co_name)
                if q.split(".")[0] in classes and "<" not in q:
                    seen.add(q)
        thunks = list(ad.probes(est, cfg, 0, 3).values())
        sys.setprofile(prof)
        try:
            for t in thunks:
                t()
        finally:
            sys.setprofile(None)
        out["trace." + name] = "|".join(sorted(seen)) or "-"
    return out


def twins(ad, cfg, pair):
    """name -> snapshot of a freshly constructed estimator fitted once"""
    key = (ad.name, cfg, pair)
    if key in _TWINS:
        return _TWINS[key]
    tw = {}
    nus = {}
    for which in (1, 2):
        e = ad.make(cfg)
        ad.fit(e, cfg, ad.data(cfg, pair, which))
        tw[f"D{which}"] = snapshot(ad, e, cfg, pair)
        if ad.name == "EG" and not ad.nu_given(cfg):
            nus[which] = e.get_params(deep=False)["nu"]
    tw["U"] = snapshot(ad, ad.make(cfg), cfg, pair)
    # explained twins for F5c: fitted on D with the automatic nu of the other data set
    if ad.name == "EG" and not ad.nu_given(cfg) and all(v is not None for v in nus.values()) and len(nus) == 2:
        for which, other in ((1, 2), (2, 1)):
            e = ad.make(cfg, nu=nus[other])
            ad.fit(e, cfg, ad.data(cfg, pair, which))
            tw[f"D{which}@nu{other}"] = snapshot(ad, e, cfg, pair)
    _TWINS[key] = tw
    return tw


def twins_alt(ad, cfg, pair):
    """twins + fresh estimators constructed with the second value of the tracked parameter: D1', D2'"""
    key = (ad.name, cfg, pair, "alt")
    if key in _TWINS:
        return _TWINS[key]
    tw = dict(twins(ad, cfg, pair))
    for which in (1, 2):
        e = ad.make_alt(cfg)
        ad.fit(e, cfg, ad.data(cfg, pair, which))
        tw[f"D{which}'"] = snapshot(ad, e, cfg, pair)
    tw["U'"] = snapshot(ad, ad.make_alt(cfg), cfg, pair)
    _TWINS[key] = tw
    return tw


def classify(ad, snap, tw):
    names = [n for n, s in tw.items() if same_snapshot(snap, s, ad.atol)]
    if names:
        return sorted(names)
    kinds = method_kinds(snap)
    if all(k != "ok" for k in kinds):
        return ["B." + kinds[0]]
    return []


# ----------------------------------------------------------------------------------------------
# running a sequence on the implementation
# ----------------------------------------------------------------------------------------------
def run_sequence(ad, cfg, pair, ops, tw=None):
    est = ad.make(cfg)
    tw = tw if tw is not None else twins(ad, cfg, pair)
    prev = snapshot(ad, est, cfg, pair)
    trace = []
    for op in ops:
        rec = {"op": op}
        before = est.get_params(deep=False)
        nested_before = nested_state(est)
        fits_before = nested_fits(est)
        same_object = True
        if op[0] == "f":
            d = ad.data(cfg, pair, int(op[1:]))
            try:
                r = ad.fit(est, cfg, d)
                rec["res"] = "self" if r is est else ("none" if r is None else "other")
            except Exception as e:  # noqa: BLE001
                rec["res"] = "raise." + type(e).__name__
                rec["detail"] = str(e)[:80]
        elif op[0] == "p":
            seed = int(op[1:])
            attrs_before = sorted(vars(est))
            deep_before = ad.deep(est)
            a = {k: observe_call(t) for k, t in ad.probes(est, cfg, pair, seed).items()}
            rec["new_attrs"] = sorted(set(vars(est)) ^ set(attrs_before))
            b = {k: observe_call(t) for k, t in ad.probes(est, cfg, pair, seed).items()}
            rec["deep_changed"] = deep_changed(deep_before, ad.deep(est))
            oks = [k for k in sorted(a) if a[k][0] == "arr"]
            rec["res"] = "ok" if oks else "raise." + a[sorted(a)[0]][1]
            rec["repeat"] = same_snapshot(a, b, ad.atol)
        elif op == "k":
            try:
                blob = pickle.dumps(est)
            except Exception:  # noqa: BLE001
                blob = None
            if blob is None:
                rec["res"] = "raise.PicklingError"
            else:
                est = pickle.loads(blob)
                same_object = False
                rec["res"] = "ok"
        elif op == "s":
            try:
                r = est.set_params(**{ad.alt[0]: ad.alt[1]})
                rec["res"] = "ok" if r is est else "other"
            except Exception as e:  # noqa: BLE001
                rec["res"] = "raise." + type(e).__name__
                rec["detail"] = str(e)[:80]
        elif op == "c":
            try:
                est = clone(est)
                same_object = False
                rec["res"] = "ok"
            except Exception as e:  # noqa: BLE001
                rec["res"] = "raise." + type(e).__name__
                rec["detail"] = str(e)[:80]
        else:
            raise ValueError(f"unknown op {op}")
        after = est.get_params(deep=False)
        rec["changed"] = params_changed(before, after, same_object)
        if same_object and nested_state(est) != nested_before:
            rec["changed"].append("estimator(mutated)")
        elif same_object and nested_fits(est) != fits_before:
            rec["changed"].append("estimator(refitted)")
        if "nu" in rec["changed"]:
            rec["nu_before_none"] = before.get("nu") is None
        keys0 = set(vars(est))
        deep0 = ad.deep(est)
        cur = snapshot(ad, est, cfg, pair)
        # … nor alter the state behind the prediction entry points (helper objects included)
        dch = deep_changed(deep0, ad.deep(est))
        if dch:
            rec["deep_changed"] = sorted(set(rec.get("deep_changed", [])) | set(dch))
        # the snapshot consists of prediction calls and attribute reads only: it must not add / remove attributes
        snap_attrs = sorted(set(vars(est)) ^ keys0)
        if snap_attrs:
            rec["new_attrs"] = sorted(set(rec.get("new_attrs", [])) | set(snap_attrs))
        rec["same"] = same_snapshot(prev, cur, ad.atol)
        rec["cls"] = classify(ad, cur, tw)
        if op[0] != "p":
            # review R2: the snapshot itself consists of prediction calls, and the twins are observed through the same
            # calls — a prediction that alters the fitted state ONCE (idempotently: a cache, an in-place normalisation)
            # would change subject and twin alike and stay invisible.  So after every state-changing operation the
            # snapshot is taken a second time: the first answers after fit / pickle / clone must be repeated.
            again = snapshot(ad, est, cfg, pair)
            if not same_snapshot(cur, again, ad.atol):
                rec["first_vs_second"] = sorted(k for k in cur if k not in again or not same_value(cur[k], again[k], ad.atol))
        prev = cur
        trace.append(rec)
    return trace


# ----------------------------------------------------------------------------------------------
# the specification automaton (oracle), independent of the Lean model
# ----------------------------------------------------------------------------------------------
def spec_trace(ops, prefit=False):
    """expected (res, cls) per operation.  prefit=True (ThresholdOptimizer around the user's fitted estimator): sklearn.clone
    drops the fitted state of the nested estimator, after which fit fails like a fresh one around an unfitted estimator."""
    state = None
    base_fitted = True
    out = []

    def cls():
        return "U" if state is None else ("B.AttributeError" if state == "broken" else f"D{state}")
    for op in ops:
        if op[0] == "f":
            if prefit and not base_fitted:
                state = "broken"
                out.append(("raise.AttributeError", cls()))
            else:
                state = int(op[1:])
                out.append(("self", cls()))
        elif op[0] == "p":
            out.append(("ok" if isinstance(state, int) else ("raise.NotFittedError" if state is None else "raise.AttributeError"), cls()))
        elif op == "k":
            out.append(("ok", cls()))
        else:
            state = None
            base_fitted = False
            out.append(("ok", "U"))
    return out


def mk(kind, msg, relation, **info):
    p = Problem(kind, msg, relation)
    p.info = info
    return p


@register
class CHECK(Check):
    pid = "C19"
    technique = ("Lean 4 state machines of the life-cycle latches (Moment.data_loaded, constraints loaded in place, "
                 "EG.nu, clone per fit, _n_features_in_, classes_/_is_setup/warm_start) proved to refine the "
                 "specification automaton for every call history under the repaired rules, counter-witnesses for "
                 "today's rules; exhaustive call sequences on the real estimators against fresh twins")
    level_text = ("Theorems (all call histories, by induction through a step-commuting embedding): each repaired "
                  "machine shows exactly the specification's view (fit returns self, state = fresh twin of the last "
                  "data, predict/pickle leave the state alone, clone resets), history_free, fit_returns_self, "
                  "params_unchanged, predict_pure, pickle_roundtrip; negations with 2-3 operation witnesses for the "
                  "rules in today's source (F5a-F5e). Tie: every call sequence up to length 3 (quick) / 4 (thorough) "
                  "over {fit(D1), fit(D2), predict, pickle, clone} per class x configuration on the real estimators, "
                  "compared operation by operation with the compiled machine under the probed rule vector and with "
                  "the Python specification automaton. SOURCE TIE (harness/lifters/lifecycle.py -> Generated/LifecycleSrc.lean): "
                  "constructor parameters, self-assignments in the closure of fit / the prediction entry points, return "
                  "expressions of fit, clone provenance of every object that is .fit()-ed, flow-sensitive history reads of fit, "
                  "__init__-derived attributes and their parameter dependencies, the moment latch, the three adversarial "
                  "re-initialisation rules and the prefit branch are lifted from the ast; src_* theorems (decide over the "
                  "generated finite tables) give params_unchanged / fit_returns_self / predict_pure per class, the EG nu "
                  "exception stays visible as a theorem (F5c), the GridSearch objective_weight staleness (F5f, repaired) as the "
                  "counter-witness machine; the machines run under "
                  "the lifted flags (lifesrc.run) and the lifted flags are cross-checked against the runtime probe. "
                  "set_params histories (Model/LifecycleParams.lean): fit after set_params(p=v) = fresh(p=v).fit for every "
                  "history iff fit reads no parameter-derived attribute. prefit=True: the user's estimator is never refitted. "
                  "PREDICT PURITY ACROSS THE HELPER OBJECTS (lifters/lifecycle_helpers.py): the prediction closure is followed from "
                  "ThresholdOptimizer.predict/_pmf_predict into InterpolatedThresholder and from _AdversarialFairness.predict/_raw_predict "
                  "into <engine>.evaluate (base class + both subclasses); writes / in-place stores / mutating calls (also through local "
                  "aliases), mode calls, forward passes and escapes are generated lists; predictPureSrc is derived from them and guards the "
                  "predict step of every source-derived machine (src_helper_predict_pure, src_helper_mode_flag_scratch, "
                  "src_predict_pure_flags, guard_off_breaks_spec); oracle: exact before/after comparison of the helper objects' state "
                  "(interpolation_dict entries, network parameters, optimiser state, plain attributes) around every prediction, a Dropout "
                  "network for the mode flag, and the helper methods entered at run time must be in the lifted closure. "
                  "PARTIAL: the machines model latches and attribute presence, "
                  "not Python object identity, pickle or clone internals, nor the learned numbers.")
    design_ref = "DESIGN.md section 4 (C19), section 5 (F5a-F5e), section 6 (partial)"
    quick_cases = 1900
    thorough_cases = 600
    # sized for ~80-110 s of work on a quiet machine; the budget only cuts the run on an overloaded one
    quick_budget_s = int(os.environ.get("VERIF_C19_BUDGET_S", "225"))
    thorough_budget_s = 1300
    workers_thorough = 4
    rule = ("case = (class in {ThresholdOptimizer, CorrelationRemover, GridSearch, ExponentiatedGradient, adversarial "
            "classifier/regressor with warm_start=False}, configuration, data pair, operation sequence over f1,f2,"
            "p<seed>,k(pickle round trip),c(sklearn.clone)). quick: ALL 125 sequences of length 3 (every prefix is "
            "judged, so lengths 1-2 are covered) for 2-3 configurations per class on data pair 0, then seeded random "
            "sequences of length 4 over all configurations and 3 data pairs until the case budget; thorough: ALL 625 "
            "sequences of length 4 for every configuration (3 per class) + random length 4-5 sequences on the other "
            "data pairs. distinct = distinct (class, configuration, pair, sequence); non-trivial = at least 2 "
            "operations including a fit. Data pairs 0-2: 20 rows, small integer features, binary sensitive feature, both "
            "labels in both groups; pairs 3-5 (layout family, run first: [f1,f2], [f2,f1], [f1,c,f2] (+3 more in thorough) for "
            "every configuration): the SET of sensitive-feature values differs between D1 and D2 (D2 subset {0,1} of {0,1,2}; "
            "superset; disjoint {0,1} vs {2,3}), 24/14, 16/26, 20/12 rows, different label balance, and on pair 4 D2 has one more "
            "feature column where estimator and container allow; predictions are compared on the rows of D1 AND of D2 (per "
            "block if the widths differ), plus the KEY SETS of the fitted dictionaries (interpolation_dict keys, lambda_vecs_ "
            "shape and groups, number of predictors); base learners are exact stump / one-feature least squares learners, one "
            "configuration per class wraps a learner whose *object* is history dependent (detects a missing clone). "
            "ThresholdOptimizer additionally with prefit=True around a learner fitted once by the harness (refit counter "
            "observed). Family set_params: [s,f], [s,c,f], [s,k,f], [x,s,y] with x,y in {f1,f2,c,k} (thorough also [s,x,y]) "
            "and random length-4 sequences containing s, one configuration per class, s = set_params(<tracked parameter>=<second "
            "value>) (TO grid_size, CR alpha, GS constraint_weight, EG max_iter, adversarial learning_rate), judged against "
            "fresh estimators CONSTRUCTED with the second value. After every prediction snapshot the attribute set of the "
            "estimator must be unchanged, and after every fit / pickle / clone / set_params the snapshot is taken twice and must "
            "repeat itself (a prediction that alters the state once, idempotently, is invisible otherwise because the twins are "
            "observed through the same calls). Not varied (fixed per configuration): the small iteration counts of the learners "
            "(EG max_iter 2-3, GridSearch grid_size 3-4, ThresholdOptimizer grid_size 10-20, adversarial nets of 2-3 hidden "
            "units, 1-2 epochs, torch backend on one thread), integer features in 0..5, no sample weights passed by the "
            "caller, predict seeds 0..9; after a fit that RAISED, the results of predict are not judged until the next "
            "fit / clone (the property says nothing about that state), the state comparisons still are.")
    explanation = ("state-machine theorems (all histories) + operation-by-operation correspondence with the real "
                   "estimators; oracle = specification automaton + freshly fitted twins compared by predictions / "
                   "_pmf_predict / weights / transform EXACTLY (atol = rtol = 0; measured max deviation between a refitted "
                   "estimator and its fresh twin, and across predict / pickle, on the clean tree: 0.0 in 3997 comparisons, "
                   "smallest deviation between different twins 8e-3). The model covers latches and flags "
                   "only: object identity, pickle and clone are trusted (pickle = identity of the modelled state, "
                   "clone = parameters kept incl. deep-copied latches, fitted attributes dropped).")
    trusted = ("pickle, sklearn.base.clone, copy.deepcopy are not modelled (see explanation)",
               "a fitted model is represented by what it depends on (data id, nu source, training history), equality of "
               "learned numbers is observed on fixed test inputs only",
               "rule vector per mechanism is lifted from the source text (lifters/lifecycle.py) AND probed by replaying the "
               "Lean counter-witnesses on fairlearn (probe_rules); a disagreement is reported (C19.static_vs_probe)",
               "lifted data -> behaviour: rebinding `self.<name>` (assignment, augmented assignment, for/with target, del, "
               "setattr with a literal name) inside the class's own methods is the only way get_params()[name] changes; the "
               "callees that receive `self` (sklearn validate_data / check_is_fitted / is_classifier, type, user callbacks, the "
               "backend engine constructor) do not rebind constructor parameters; calls into other classes are not followed "
               "except ExponentiatedGradient -> _Lagrangian (fit) and, for the PREDICTION closure, ThresholdOptimizer -> "
               "InterpolatedThresholder (interpolated_thresholder_) and _AdversarialFairness -> BackendEngine / PytorchEngine / "
               "TensorflowEngine (backendEngine_), lifters/lifecycle_helpers.py",
               "inside the helper classes: a method call on a helper attribute mutates iff its name is in the lifter's MUTATING list "
               "or ends in `_` (torch in-place convention); names in its PURE list (items, parameters, numpy, detach, ..) do not; any "
               "other name is refused.  `_get_soft_predictions(estimator_, ..)` and the forward pass of the user's torch / keras module "
               "in eval mode do not alter the helper object (the user's base estimator / network is outside fairlearn); "
               "ThresholdOperation.__call__ is checked to contain no store",
               "DECISION: the train/eval MODE FLAG of a torch module (written by PytorchEngine.evaluate: predictor_model.eval()) is NOT "
               "fitted state, provided every forward pass in evaluate and in train_step is preceded by a mode selection (lifted, "
               "theorem src_helper_mode_flag_scratch); parameters, buffers, optimiser state and every attribute ARE",
               "`.retSelf` of the EG / TO / CR machine steps and `pickle = identity on the modelled state` stay MODELLED (the lifted "
               "fitReturns table is proved [\"self\"] for every class, but only the GridSearch rule flag and advStepSrc are computed "
               "from it)",
               "set_params(p=v) is setattr(self, p, v) (sklearn BaseEstimator); clone re-runs __init__ on get_params()",
               "torch is deterministic for a fixed random_state on one thread")
    assumptions = ("adversarial estimators are constructed with warm_start=False and an integer random_state",
                   "ThresholdOptimizer: prefit=False, and one configuration prefit=True around a learner the harness fitted once (its "
                   "unfitted clone raises AttributeError from predict_proba)", "every data set contains all classes and both groups",
                   "pickling a set-up adversarial estimator is not claimed by the property (result not judged, state is)",
                   "helper objects: only the torch backend is executed (tensorflow is not installed; TensorflowEngine.evaluate is "
                   "covered by the lifted lists and theorems only); the torch train/eval mode flag is not compared as state (see trusted)",
                   "F5g (repaired in /repo): CorrelationRemover.transform called validate_data(self, X) with reset=True and so rewrote "
                   "n_features_in_ / feature_names_in_; the other-width (nd-wide, df-wide) and moved-column (df-moved) configurations "
                   "keep calling transform on such data, so a revert is reported (C19.predict_pure what=helper-state)")

    # ---------------------------------------------------------------- generation
    def _cfgs(self, ad, tier):
        return ad.cfgs if tier == "thorough" else ad.quick_cfgs

    def generate(self, rng, tier):
        # the two small families first (a run that is cut by the wall-clock budget still covers them)
        yield from self.helper_family(tier)
        yield from self.layout_family(tier)
        yield from self.params_family(tier)
        if tier == "quick":
            for name in ORDER:
                ad = ADAPTERS[name]
                for cfg in ad.quick_cfgs:
                    for ops in itertools.product(ALPHABET, repeat=3):
                        yield {"cls": name, "cfg": cfg, "pair": 0, "ops": list(ops)}
        while True:
            if rng.random() < 0.12:
                name = rng.choice(ORDER)
                cfgp = PARAM_CFG[name] if tier == "quick" else rng.choice([c for c in ADAPTERS[name].cfgs if c not in NU_NONE_CFGS])
                ops = [rng.choice(["f1", "f2", "f1", "f2", "s", "s", "c", "k", "p3"]) for _ in range(4)]
                if "s" not in ops:
                    ops[rng.randrange(3)] = "s"
                yield {"kind": "params", "cls": name, "cfg": cfgp, "pair": rng.randint(0, N_PAIRS - 1), "ops": ops}
                continue
            name = rng.choice(ORDER)
            ad = ADAPTERS[name]
            cfg = rng.choice(ad.cfgs)
            n = 4 if tier == "quick" else rng.choice([4, 5])
            ops = []
            for _ in range(n):
                o = rng.choice(["f1", "f2", "f1", "f2", "p", "k", "c"])
                ops.append("p" + str(rng.randint(0, 9)) if o == "p" else o)
            yield {"cls": name, "cfg": cfg, "pair": rng.randint(0, N_PAIRS - 1), "ops": ops}

    def helper_family(self, tier):
        """predictions THROUGH the helper objects: an adversarial classifier whose predictor network contains Dropout (the
        forward pass depends on the train / eval mode of the module) — predict right after fit, twice, around a refit"""
        for ops in (["f1", "p3", "p3"], ["f1", "p3", "f2"], ["f2", "p1", "f1", "p1"]):
            yield {"cls": "ADV", "cfg": "clf-dropout", "pair": 0, "ops": list(ops)}

    def layout_family(self, tier):
        """refits on data pairs whose group sets / row counts / column counts / label balance differ (pairs 3-5)"""
        seqs = (["f1", "f2"], ["f2", "f1"], ["f1", "f2", "f1"], ["f1", "c", "f2"], ["f1", "k", "f2"], ["f1", "p5", "f2"])
        for name in ORDER:
            ad = ADAPTERS[name]
            for cfg in self._cfgs(ad, tier):
                for pair in LAYOUT_PAIRS:
                    for ops in (seqs if tier == "thorough" else (seqs[0], seqs[1], seqs[3])):
                        yield {"cls": name, "cfg": cfg, "pair": pair, "ops": list(ops)}

    def params_family(self, tier):
        """histories with one set_params(p=v): [s,f], [s,c,f], [s,k,f], [x,s,y] (thorough also [s,x,y]), x,y in {f1,f2,c,k}"""
        for name in ORDER:
            for ops in (["s", "f1"], ["s", "f2"], ["s", "c", "f2"], ["s", "k", "f1"]):
                yield {"kind": "params", "cls": name, "cfg": PARAM_CFG[name], "pair": 1, "ops": ops}
            for ops in itertools.product(["f1", "f2", "c", "k"], repeat=2):
                positions = (0, 1) if tier == "thorough" else (1,)
                for pos in positions:
                    o = list(ops)
                    o.insert(pos, "s")
                    yield {"kind": "params", "cls": name, "cfg": PARAM_CFG[name], "pair": 1, "ops": o}

    def exhaustive(self, tier):
        for name in ORDER:
            ad = ADAPTERS[name]
            for cfg in ad.cfgs:
                for ops in itertools.product(ALPHABET, repeat=4):
                    yield {"cls": name, "cfg": cfg, "pair": 0, "ops": list(ops)}

    def shrink(self, case):
        ops = case["ops"]
        for i in range(len(ops)):
            if len(ops) > 1:
                yield dict(case, ops=ops[:i] + ops[i + 1:])
        if case["pair"] != 0:
            yield dict(case, pair=0)

    # ---------------------------------------------------------------- implementation
    def impl(self, case):
        ad = ADAPTERS[case["cls"]]
        rules = probe_rules()
        tw = twins(ad, case["cfg"], case["pair"])
        distinct = not same_snapshot(tw["D1"], tw["D2"], ad.atol) and not same_snapshot(tw["D1"], tw["U"], ad.atol)
        if case.get("kind") == "params":
            twa = twins_alt(ad, case["cfg"], case["pair"])
            trace = run_sequence(ad, case["cfg"], case["pair"], case["ops"], tw=twa)
            alt_distinct = not same_snapshot(twa["D1"], twa["D1'"], ad.atol) or not same_snapshot(twa["D2"], twa["D2'"], ad.atol)
            return {"rules": rules, "twins_distinct": distinct, "alt_distinct": alt_distinct, "trace": trace}
        trace = run_sequence(ad, case["cfg"], case["pair"], case["ops"])
        return {"rules": rules, "twins_distinct": distinct, "trace": trace}

    def lines(self, case, o):
        if "crash" in o:
            return []
        ad = ADAPTERS[case["cls"]]
        if case.get("kind") == "params":
            ops = ",".join(case["ops"])
            return [f"lifeparam.run {ad.lean} {ops}", f"lifeparam.spec {ops}"]
        w = ",".join(str(x) for x in ad.widths(case["cfg"], case["pair"]))
        ops = ",".join(case["ops"]) if case["ops"] else "-"
        cfg = ad.lean_cfg(case["cfg"])
        src_cfg = cfg if ad.lean in ("eg", "adv") else "-"
        ln = ad.lean_name(case["cfg"])
        return [f"lifecycle.run {ln} {ad.rule_bits(o['rules'])} {cfg} {w} {ops}",
                f"lifecycle.run {ln} {ad.repaired_bits()} {cfg} {w} {ops}",
                f"lifesrc.run {ln} {src_cfg} {w} {ops}",
                "lifesrc.flags"]

    # ---------------------------------------------------------------- judging
    def judge(self, case, o, mo):
        if "crash" in o:
            return [mk("correspondence", f"harness adapter crashed: {o}", "C19.impl-total")]
        ad = ADAPTERS[case["cls"]]
        name, cfg, ops = case["cls"], case["cfg"], case["ops"]
        if case.get("kind") == "params":
            return self.judge_params(case, o, mo)
        probs = []
        if not o["twins_distinct"]:
            return [Problem("harness", f"twins of {name}/{cfg} pair {case['pair']} are not distinguishable")]
        prefit = cfg == "prefit"
        spec = spec_trace(ops, prefit)
        if not (len(o["trace"]) == len(ops) == len(spec)):      # zip below must not truncate silently
            return [Problem("harness", f"trace / specification do not cover every operation of {ops}: "
                                       f"{len(o['trace'])} records, {len(spec)} expected")]
        base_unfitted = False    # prefit: the nested estimator was cloned (= unfitted) since construction
        widths = ad.widths(cfg, case["pair"])
        tainted = False          # a fit raised: the state the property speaks about is undefined until fit/clone
        fitted_since_clone = []  # data ids fitted (attempted) on this object since construction / clone
        any_fit_before = False
        for i, (op, rec, (sres, scls)) in enumerate(zip(ops, o["trace"], spec)):
            where = f"op {i} ({op}) of {ops} on {name}/{cfg}"
            base = dict(cls=name, cfg=cfg, op=op, index=i)
            if rec["changed"]:
                probs.append(mk("property", f"{where}: get_params(deep=False) changed: {rec['changed']}",
                                "C19.params_unchanged", changed=rec["changed"],
                                nu_before_none=rec.get("nu_before_none", False), **base))
            if rec.get("new_attrs"):
                probs.append(mk("property", f"{where}: a prediction call (predict / _pmf_predict / transform on fixed test "
                                f"inputs) added / removed attributes of the estimator: {rec['new_attrs']}",
                                "C19.predict_pure", what="attrs", **base))
            if rec.get("first_vs_second"):
                probs.append(mk("property", f"{where}: the first prediction snapshot after the operation is not repeated by the "
                                f"second one (a prediction call altered the fitted state): {rec['first_vs_second']}",
                                "C19.predict_pure", what="first-vs-second", **base))
            if rec.get("deep_changed"):
                probs.append(mk("property", f"{where}: a prediction call (predict / _pmf_predict / _raw_predict / transform on fixed "
                                f"test inputs) altered the state behind it (estimator attributes, helper object "
                                f"interpolated_thresholder_ / backendEngine_: attributes, interpolation_dict entries, network "
                                f"parameters, optimiser state): {rec['deep_changed'][:6]}",
                                "C19.predict_pure", what="helper-state", names=list(rec["deep_changed"]), **base))
            if op[0] == "f":
                d = int(op[1:])
                refit = bool(fitted_since_clone)
                width_change = bool(fitted_since_clone) and widths[fitted_since_clone[-1] - 1] != widths[d - 1]
                if prefit and base_unfitted:
                    # like a fresh ThresholdOptimizer(prefit=True) around an unfitted estimator: fit must fail
                    if not rec["res"].startswith("raise."):
                        probs.append(mk("correspondence", f"{where}: prefit=True around an unfitted (cloned) estimator: fit gave "
                                        f"{rec['res']}", "C19.prefit_clone_fit", **base))
                    tainted = True
                elif rec["res"].startswith("raise."):
                    probs.append(mk("property", f"{where}: fit raised {rec['res'][6:]}: {rec.get('detail', '')}",
                                    "C19.fit_total", exc=rec["res"][6:], detail=rec.get("detail", ""),
                                    prior_fit=any_fit_before, refit=refit, width_change=width_change, **base))
                    tainted = True
                else:
                    tainted = False
                    if rec["res"] != "self":
                        probs.append(mk("property", f"{where}: fit returned {rec['res']} instead of the estimator",
                                        "C19.fit_returns_self", ret=rec["res"], **base))
                    if scls not in rec["cls"]:
                        explained = [c for c in rec["cls"] if c.startswith(scls + "@nu")]
                        probs.append(mk("property",
                                        f"{where}: fitted estimator differs from a fresh twin fitted on D{d} "
                                        f"(it matches {rec['cls'] or 'no twin'})",
                                        "C19.history_free", refit=refit, explained_by_nu=bool(explained),
                                        matches=rec["cls"], **base))
                    fitted_since_clone.append(d)
                any_fit_before = True
            elif op[0] == "p":
                if not rec.get("repeat", True):
                    probs.append(mk("property", f"{where}: predict with the same seed did not repeat its answer",
                                    "C19.predict_pure", what="repeat", **base))
                if not rec["same"]:
                    probs.append(mk("property", f"{where}: predict altered the fitted state",
                                    "C19.predict_pure", what="state", **base))
                if not tainted:
                    if scls == "U" and rec["res"] != "raise.NotFittedError":
                        probs.append(mk("correspondence", f"{where}: predict on an unfitted estimator gave {rec['res']}",
                                        "C19.predict_unfitted", **base))
                    if scls != "U" and rec["res"] != "ok":
                        probs.append(mk("property", f"{where}: predict on a fitted estimator gave {rec['res']}",
                                        "C19.predict_total", **base))
            elif op == "k":
                if ad.claims_pickle and rec["res"] != "ok":
                    probs.append(mk("property", f"{where}: pickle round trip failed", "C19.pickle_roundtrip",
                                    what="raise", **base))
                if not rec["same"]:
                    probs.append(mk("property", f"{where}: estimator restored from pickle predicts differently",
                                    "C19.pickle_roundtrip", what="state", **base))
            else:
                tainted = False
                fitted_since_clone = []
                base_unfitted = True
                if rec["res"] != "ok":
                    probs.append(mk("property", f"{where}: clone failed: {rec['res']}", "C19.clone", what="raise", **base))
                elif "U" not in rec["cls"]:
                    probs.append(mk("property", f"{where}: clone is not an unfitted estimator ({rec['cls']})",
                                    "C19.clone", what="state", **base))
        # ---- Lean model ----------------------------------------------------------------------
        if mo is not None:
            if len(mo) != 4 or "bad-op" in mo:
                return probs + [Problem("harness", f"driver rejected the case: {mo}")]
            cur, rep, src = [[t.split(":") for t in line.split(";")] if line != "-" else [] for line in mo[:3]]
            if not (len(cur) == len(rep) == len(src) == len(ops)) or any(len(t) != 3 for t in cur + rep + src):
                # theorem C19.driver_output_covers_every_op: one record per operation; anything else is our machinery
                return probs + [Problem("harness", f"driver output does not have one (res, cls, param) record per operation of {ops}: {mo[:3]}")]
            flags = dict(kv.split("=", 1) for kv in mo[3].split(" "))
            # (c) the rule vector the lifter derived from the source text == the rule vector probed at run time
            for key in ("F5a", "F5b.GS", "F5b.EG", "F5c", "F5d", "F5e"):
                if flags.get(key) != o["rules"].get(key):
                    probs.append(mk("correspondence",
                                    f"rule {key}: lifted from the source = {flags.get(key)}, probed on the running code = "
                                    f"{o['rules'].get(key)} (flags {mo[3]})", "C19.static_vs_probe", cls=name, cfg=cfg))
                    break
            # (c') helper methods entered at run time during predictions ⊆ the closure the lifter followed; purity flags on
            # (both are facts about the source text, the same for every case: reported ONCE per run, so that they do not fill
            #  the violation list before a case with a concrete failing input has been reached)
            lifted = set(flags.get("helperClosure", "").split("|"))
            for key in (("trace.TO", "trace.ADV") if "closure" not in _STATIC_REPORTED else ()):
                entered = [q for q in o["rules"].get(key, "-").split("|") if q != "-"]
                missing = [q for q in entered if q not in lifted]
                if missing or not entered:
                    probs.append(mk("correspondence", f"helper methods entered during predictions ({key}): {entered}; not in the lifted "
                                    f"closure helperPredictClosure: {missing} (lifted {sorted(lifted)})",
                                    "C19.helper_closure_vs_trace", cls=name, cfg=cfg))
                    _STATIC_REPORTED.add("closure")
                    break
            if "flags" not in _STATIC_REPORTED and (flags.get("predictPure") != "1" or "0" in flags.get("helperPure", "0")):
                _STATIC_REPORTED.add("flags")
                probs.append(mk("correspondence", f"the lifted predict-purity flags are not all on: predictPure={flags.get('predictPure')} "
                                f"helperPure={flags.get('helperPure')} (IT,BE,PT,TF)", "C19.predict_pure_flags", cls=name, cfg=cfg))
            if o["rules"].get("cr1d") != "dead":
                probs.append(mk("correspondence", "CorrelationRemover.fit on 1-d input no longer raises: the static path "
                                "that leaves lookup_ of an earlier fit in place is live", "C19.cr_1d_path_dead",
                                cls=name, cfg=cfg))
            # (d) implementation == machine under the rule flags lifted from the source
            for i, (op, m, rec) in enumerate(zip(ops, src, o["trace"])):
                ok_res = m[0] == rec["res"]
                ok_cls = (m[1] in rec["cls"]) or (m[1] == "X" and rec["cls"] == [])
                ok_par = (m[2] == "-" and not rec["changed"]) or ([m[2]] == rec["changed"])
                if not (ok_res and ok_cls and ok_par):
                    probs.append(mk("correspondence",
                                    f"op {i} ({op}) of {ops} on {name}/{cfg}: implementation ({rec['res']}, {rec['cls']}, "
                                    f"{rec['changed']}) vs Lean machine under the SOURCE-DERIVED rules [{mo[3]}]: {m}",
                                    "C19.src_model_trace", cls=name, cfg=cfg, op=op, index=i))
                    break
            # (a) repaired machine == specification automaton (theorem <m>_refines_spec, instantiated)
            for i, (op, m, (sres, scls)) in enumerate(zip(ops, rep, spec)):
                mres = "ok" if (op == "k" and not ad.claims_pickle) else m[0]
                if (mres, m[1], m[2]) != (sres, scls, "-"):
                    probs.append(Problem("harness", f"repaired Lean machine {m} != specification {(sres, scls)} at op {i} of {ops}"))
            # (b) implementation == machine under the probed rules
            for i, (op, m, rec) in enumerate(zip(ops, cur, o["trace"])):
                ok_res = m[0] == rec["res"]
                ok_cls = (m[1] in rec["cls"]) or (m[1] == "X" and rec["cls"] == [])
                ok_par = (m[2] == "-" and not rec["changed"]) or ([m[2]] == rec["changed"])
                if not (ok_res and ok_cls and ok_par):
                    probs.append(mk("correspondence",
                                    f"op {i} ({op}) of {ops} on {name}/{cfg}: implementation ({rec['res']}, {rec['cls']}, "
                                    f"{rec['changed']}) vs Lean machine under rules {o['rules']}: {m}",
                                    "C19.model_trace", cls=name, cfg=cfg, op=op, index=i))
                    break
        return probs

    def judge_params(self, case, o, mo):
        """histories with set_params: after `fit(D)` the estimator must equal a FRESH estimator constructed with the
        current parameters (D<k> = constructor values, D<k>' = second value of the tracked parameter) fitted on D"""
        ad = ADAPTERS[case["cls"]]
        name, cfg, ops = case["cls"], case["cfg"], case["ops"]
        probs = []
        p, fitted, stale = 0, None, False      # stale: a set_params since construction / the last clone
        want = []
        for i, (op, rec) in enumerate(zip(ops, o["trace"])):
            where = f"op {i} ({op}) of {ops} on {name}/{cfg} [{ad.alt[0]}: constructor value -> {ad.alt[1]}]"
            base = dict(cls=name, cfg=cfg, op=op, index=i, family="params")
            exp = None
            if rec.get("first_vs_second"):
                probs.append(mk("property", f"{where}: the first prediction snapshot after the operation is not repeated by the "
                                f"second one (a prediction call altered the fitted state): {rec['first_vs_second']}",
                                "C19.predict_pure", what="first-vs-second", **base))
            if rec.get("deep_changed"):
                probs.append(mk("property", f"{where}: a prediction call (predict / _pmf_predict / _raw_predict / transform on fixed "
                                f"test inputs) altered the state behind it (estimator attributes, helper object "
                                f"interpolated_thresholder_ / backendEngine_: attributes, interpolation_dict entries, network "
                                f"parameters, optimiser state): {rec['deep_changed'][:6]}",
                                "C19.predict_pure", what="helper-state", names=list(rec["deep_changed"]), **base))
            if op[0] == "f":
                d = int(op[1:])
                fitted = (d, p)
                exp = f"D{d}" + ("'" if p else "")
                if rec["res"].startswith("raise."):
                    probs.append(mk("property", f"{where}: fit raised {rec['res'][6:]}: {rec.get('detail', '')}", "C19.fit_total",
                                    exc=rec["res"][6:], detail=rec.get("detail", ""), prior_fit=True, refit=True,
                                    width_change=False, **base))
                else:
                    if rec["res"] != "self":
                        probs.append(mk("property", f"{where}: fit returned {rec['res']}", "C19.fit_returns_self", ret=rec["res"], **base))
                    if rec["changed"]:
                        probs.append(mk("property", f"{where}: get_params(deep=False) changed during fit: {rec['changed']}",
                                        "C19.params_unchanged", changed=rec["changed"], nu_before_none=False, **base))
                    if exp not in rec["cls"]:
                        probs.append(mk("property",
                                        f"{where}: fitted estimator differs from a fresh estimator constructed with the current "
                                        f"parameters and fitted on D{d} (expected twin {exp}, it matches {rec['cls'] or 'no twin'})",
                                        "C19.set_params_history_free", stale=stale, matches=rec["cls"], **base))
            elif op == "s":
                expect_changed = [ad.alt[0]] if p == 0 else []
                p, stale = 1, True
                if rec["res"] != "ok" or rec["changed"] != expect_changed:
                    probs.append(mk("correspondence", f"{where}: set_params gave {rec['res']}, changed parameters {rec['changed']}",
                                    "C19.set_params_sets", **base))
            elif op == "c":
                fitted, stale = None, False
                if rec["res"] != "ok" or not ({"U", "U'"} & set(rec["cls"])):
                    probs.append(mk("property", f"{where}: clone failed or is not unfitted ({rec['res']}, {rec['cls']})", "C19.clone",
                                    what="state", **base))
            want.append(exp)
        if mo is not None:
            if len(mo) != 2 or "bad-op" in mo:
                return probs + [Problem("harness", f"driver rejected the case: {mo}")]
            mach, spec = [[t.split(":") for t in line.split(";")] for line in mo]
            if not (len(mach) == len(spec) == len(ops) == len(o["trace"])) or any(len(t) != 2 for t in mach + spec):
                return probs + [Problem("harness", f"driver output does not have one (res, cls) record per operation of {ops}: {mo}")]
            for i, (op, m, sp, exp, rec) in enumerate(zip(ops, mach, spec, want, o["trace"])):
                if exp is not None and sp[1] != exp:
                    probs.append(Problem("harness", f"Lean specification {sp} != Python specification {exp} at op {i} of {ops}"))
                if exp is not None and not rec["res"].startswith("raise."):
                    # machine says X = "fitted with the new parameter and the stale derived attribute": the learned numbers
                    # may coincide with a twin, so X constrains nothing; a definite twin must be matched
                    ok = True if m[1] == "X" else (m[1] == exp and m[1] in rec["cls"])
                    if not ok:
                        probs.append(mk("correspondence",
                                        f"op {i} ({op}) of {ops} on {name}/{cfg}: implementation matches {rec['cls']}, the machine over "
                                        f"the lifted source (fit reads a parameter-derived attribute: {m[1] == 'X'}) says {m[1]}",
                                        "C19.params_model_trace", cls=name, cfg=cfg, op=op, index=i))
                        break
        return probs

    def signature(self, case, o):
        ops = case["ops"]
        if case.get("kind") == "params":
            key = ("params", case["cls"], case["cfg"], case["pair"], tuple(ops))
            tags = [f"cls={case['cls']}", "family=set_params", f"len={len(ops)}"]
            for rec in o.get("trace", []):
                tags.append(f"{rec['op'][0]}->{rec['res']}")
                if rec["op"][0] == "f":
                    tags.append("state=" + ("|".join(rec["cls"]) or "X"))
            return key, True, tags
        key = (case["cls"], case["cfg"], case["pair"], tuple(ops))
        tags = [f"cls={case['cls']}", f"cfg={case['cls']}/{case['cfg']}", f"len={len(ops)}", f"pair={case['pair']}"]
        if "trace" in o:
            for rec in o["trace"]:
                tags.append(f"{rec['op'][0]}->{rec['res']}")
                tags.append("state=" + ("|".join(rec["cls"]) or "X"))
            tags.append("rules=" + ",".join(f"{k}:{'current' if v == '0' else 'repaired' + ('' if v == '1' else v)}"
                                            for k, v in sorted(o["rules"].items()) if not k.startswith("trace.")))
            if case["cfg"] == "clf-dropout":
                tags.append("family=helper")
        nontriv = len(ops) >= 2 and any(x[0] == "f" for x in ops)
        return key, nontriv, tags

    # ---------------------------------------------------------------- known findings (one predicate each)
    def known(self, case, problem, entries):
        info = getattr(problem, "info", None)
        if not info or problem.kind != "property":
            return None
        by_id = {e["id"]: e for e in entries}
        rel, cls = problem.relation, info.get("cls")
        hit = None
        # F5a: GridSearch.fit return value is None
        if cls == "GS" and rel == "C19.fit_returns_self" and info.get("ret") == "none":
            hit = "F5a"
        # F5b: EG / GridSearch: a fit after an earlier fit (same object, pickle copy or sklearn clone) raises
        #      AssertionError "data can be loaded only once"
        elif (cls in ("EG", "GS") and rel == "C19.fit_total" and info.get("exc") == "AssertionError"
              and "loaded only once" in info.get("detail", "") and info.get("prior_fit")):
            hit = "F5b"
        # F5c: EG constructed with nu=None: get_params()['nu'] differs before/after a fit; and (once F5b is
        #      repaired) a later fit that equals the twin fitted with that retained nu
        elif (cls == "EG" and not ADAPTERS["EG"].nu_given(info.get("cfg")) and rel == "C19.params_unchanged"
              and info.get("changed") == ["nu"] and info.get("op", "")[0] == "f" and info.get("nu_before_none")):
            hit = "F5c"
        elif (cls == "EG" and not ADAPTERS["EG"].nu_given(info.get("cfg")) and rel == "C19.history_free"
              and info.get("explained_by_nu")):
            hit = "F5c"
        # (F5f, GridSearch objective_weight stale after set_params(constraint_weight=..), was repaired in /repo 2f54dd0: no
        #  predicate any more — a revert is reported as a violation of C19.set_params_history_free)
        # F5d: adversarial, warm_start=False: a second fit on the same object differs from a fresh fit
        elif cls == "ADV" and rel == "C19.history_free" and info.get("refit"):
            hit = "F5d"
        # F5e: CorrelationRemover refit on data with a different number of columns raises ValueError
        elif (cls == "CR" and rel == "C19.fit_total" and info.get("exc") == "ValueError"
              and info.get("width_change")):
            hit = "F5e"
        # (F5g, CorrelationRemover.transform -> validate_data(self, X) with reset=True rewriting n_features_in_ /
        #  feature_names_in_, was repaired in /repo (reset=False): no predicate any more — a revert is reported as a violation
        #  of C19.predict_pure what=helper-state, corpus/C19/f5g-...json)
        return by_id.get(hit) if hit else None
