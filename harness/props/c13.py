"""C13 — multiple sensitive/control columns group rows by tuple equality, collision-free."""
import collections
import itertools
import json
import math
from fractions import Fraction as F

import numpy as np

import random

from .. import proto, thr_common
from ..core import Check, Problem, register


def _history_flag(case):
    """30 % of the ThresholdOptimizer cases: the object under test had a previous life (thr_common.previous_life: fit on other
    data with one extra group + one prediction) before the fit whose `interpolation_dict` is compared with the per-tuple refit.
    Derived from the case's own content, so the main random stream is not disturbed."""
    return random.Random(json.dumps([case["rows"], case["y"]], default=str)).random() < 0.3

PIECES = [",", "\\", "a", "1", "1.0", "", " "]
INTS = [0, 1, 2, 10]
FLOATS = [1.0, 0.5, 2.0, 10.0, 1.5]
MIXED = [1, 1.0, 2, 0.5]
# measured on the clean tree (review R1, quick tier seed 0): every float comparison of this check (rule signatures,
# predict-time P(1), EG/GridSearch pmf vs the refit on first-principles group ids) agreed bit for bit (max deviation 0.0)
TOL = 1e-12

# ---- collision classes of the classic slips (used to PLANT adversarial row pairs) -----------------------------
_A4 = [",", "\\", "a", " "]
_VALS2 = [""] + _A4 + [x + y for x in _A4 for y in _A4]
_SLIPS = {
    "naive": lambda n: n,
    "noback": lambda n: n.replace(",", "\\,"),
    "nocomma": lambda n: n.replace("\\", "\\\\"),
    "swapped": lambda n: n.replace(",", "\\,").replace("\\", "\\\\"),
}


def _collision_pairs():
    out = []
    for name, f in sorted(_SLIPS.items()):
        d = collections.defaultdict(list)
        for t in itertools.product(_VALS2, repeat=2):
            d[",".join(f(x) for x in t)].append(t)
        for k in sorted(d):
            v = d[k]
            for i in range(len(v)):
                for j in range(i + 1, len(v)):
                    out.append((name, v[i], v[j]))
    return out


COLLISIONS_ALL = _collision_pairs()
_BY_SLIP = collections.defaultdict(list)
for _c in COLLISIONS_ALL:
    _BY_SLIP[_c[0]].append(_c)


class _Coll:
    """choice(): pick the slip first, so the rarer collision kinds are planted as often as the common ones"""

    def pick(self, rng):
        return rng.choice(_BY_SLIP[rng.choice(sorted(_BY_SLIP))])


COLLISIONS = _Coll()


# ---- first-principles stringification and partition -------------------------------------------------------------
def cell_str(case, v):
    """the string numpy's astype(str) yields for the cell, by the documented conversion rules:
    an all-numeric table in a homogeneous container is one numeric array (float as soon as one float is
    present); otherwise every cell is str() of its own Python value."""
    cols, cont = case["cols"], case["container"]
    allnum = all(c in "ifm" for c in cols)
    if v is None:
        return "None"
    if isinstance(v, str):
        return v
    if allnum and cont in ("df", "ndnum", "list"):
        if any(c in "fm" for c in cols):
            return repr(float(v))
        return str(int(v))
    if isinstance(v, bool):
        return str(v)
    if isinstance(v, int):
        return str(v)
    return repr(float(v))


def str_rows(case, rows):
    return [tuple(cell_str(case, v) for v in r) for r in rows]


def classes_of(keys):
    """partition of positions by equality of keys, classes ordered by first position"""
    d = {}
    for i, k in enumerate(keys):
        d.setdefault(k, []).append(i)
    return sorted(d.values(), key=lambda c: c[0])


def fmt_table(srows):
    return ";".join(proto.strs(r) for r in srows)


def p_classes(tok):
    if tok == "-":
        return []
    return [[int(x) for x in c.split(",")] for c in tok.split(";")]


def build_container(case, rows, container=None):
    import pandas as pd
    cont = container or case["container"]
    ncol = len(rows[0])
    if cont == "df":
        return pd.DataFrame({f"s{k}": [r[k] for r in rows] for k in range(ncol)})
    if cont == "ndobj":
        a = np.empty((len(rows), ncol), dtype=object)
        for i, r in enumerate(rows):
            for k, v in enumerate(r):
                a[i, k] = v
        return a
    if cont == "ndU":
        return np.array([[str(v) for v in r] for r in rows], dtype=str)
    if cont == "ndnum":
        return np.array(rows)
    if cont == "list":
        return [list(r) for r in rows]
    raise ValueError(cont)


def bunch_sig(b):
    def th(x):
        x = float(x)
        return "inf" if x == math.inf else "-inf" if x == -math.inf else x
    out = {"p0": float(b.p0), "p1": float(b.p1),
           "op0": [b.operation0.operator, th(b.operation0.threshold)],
           "op1": [b.operation1.operator, th(b.operation1.threshold)]}
    if "p_ignore" in b:
        out["p_ignore"] = float(b.p_ignore)
        out["const"] = float(b.prediction_constant)
    return out


def sig_close(a, b):
    if set(a) != set(b):
        return False
    for k in a:
        if k in ("op0", "op1"):
            if a[k][0] != b[k][0]:
                return False
            x, y = a[k][1], b[k][1]
            if isinstance(x, str) or isinstance(y, str):
                if x != y:
                    return False
            elif abs(x - y) > TOL:
                return False
        elif abs(a[k] - b[k]) > TOL:
            return False
    return True


# ---- the callers of _merge_columns: single column passthrough vs merge, control features, fit vs predict ------------
def canon(v):
    """canonical token of a VALUE (single column: values are passed through unchanged and compared by ==)"""
    if isinstance(v, str):
        return "s" + str(v)
    return "n" + repr(float(v))


def caller_key(case, r):
    """first-principles group identity of a row: the value itself for one column, the tuple of strings otherwise"""
    if len(case["cols"]) == 1:
        return canon(r[0])
    return tuple(cell_str(case, v) for v in r)


def build_single(cont, vals):
    import pandas as pd
    if cont == "flat":
        return list(vals)
    if cont == "series":
        return pd.Series(list(vals), dtype=object if any(isinstance(v, str) for v in vals) else None)
    if cont == "df":
        return pd.DataFrame({"s0": list(vals)})
    if cont == "ndobj":
        a = np.empty((len(vals), 1), dtype=object)
        for i, v in enumerate(vals):
            a[i, 0] = v
        return a
    if cont == "nd1d":
        return np.array(list(vals))
    raise ValueError(cont)


def caller_table(case, rows, cont=None):
    cont = cont or case["container"]
    if len(case["cols"]) == 1:
        return build_single(cont, [r[0] for r in rows])
    return build_container(case, rows, cont)


CALLER_CELLS = {"s": ["a", "b", "1", "1.0", "True", "None", ",", "\\", ""], "i": [0, 1, 2, 10], "f": [1.0, 0.5, 2.0, 10.0],
                "m": [1, 1.0, 2, 0.5, 2.0], "b": [True, False], "n": [None, "None", "a"], "B": [True, "True", 1, "1"]}


class _Pass:
    pass


def make_pass():
    from sklearn.base import BaseEstimator

    class PassThrough(BaseEstimator):
        def fit(self, X, y=None, **kw):
            self.fitted_ = True
            return self

        def predict(self, X):
            return np.asarray(X, dtype=float)[:, 0]
    return PassThrough().fit(None)


MOMENTS = ["DP", "EO", "TPRP", "FPRP", "ERP", "BGL", "ER"]


def make_moment(name):
    import fairlearn.reductions as red
    if name == "DP":
        return red.DemographicParity()
    if name == "EO":
        return red.EqualizedOdds()
    if name == "TPRP":
        return red.TruePositiveRateParity()
    if name == "FPRP":
        return red.FalsePositiveRateParity()
    if name == "ERP":
        return red.ErrorRateParity()
    if name == "BGL":
        return red.BoundedGroupLoss(red.SquareLoss(0, 1), upper_bound=0.5)
    if name == "ER":
        return red.ErrorRate()
    raise ValueError(name)


@register
class CHECK(Check):
    pid = "C13"
    technique = ("Lean 4 theorems over the Merge model (encoder built from the separator/replace chain lifted from the "
                 "source) + compiled-driver correspondence with moments, ExponentiatedGradient, GridSearch and "
                 "ThresholdOptimizer on adversarial tables")
    level_text = ("Theorems (all rows over arbitrary characters, no size bound): the induced groups are a PARTITION of the row "
                  "positions (every row in exactly one class, classes disjoint, none empty, one per distinct key); the decoder inverts the merge "
                  "(split_join), hence the merge is injective on non-empty rows, two rows share a key iff they agree "
                  "in every column, the key partition equals the tuple-equality partition and MetricFrame's non-empty "
                  "intersectional cells. Tie: Generated/MergeConsts.lean is lifted from _merge_columns on every run; "
                  "moments' tags/index, EG/GridSearch, ThresholdOptimizer fit keys and predict-time rule selection are "
                  "compared with the compiled model and a first-principles tuple-equality oracle. Callers (lifted into "
                  "Generated/MergeCallers.lean): a single column is passed through unchanged (not stringified) and is "
                  "injective too, >= 2 columns are merged, control features use the same function under the same test, "
                  "and every fit-time and the predict-time call site reach the same encoder (encode_single/multi/"
                  "injective, control_uses_same_encoder, fit_predict_same_encoder, predict_selects_same_tuple); the partition of the "
                  "callers' group ids equals MetricFrame's cells at every width >= 1 (encode_partition_eq_metricframe). The "
                  "interpolation_dict lookup at predict time is correspondence only.")
    design_ref = "DESIGN.md section 4, C13"
    quick_cases = 600
    thorough_cases = 6000
    workers_thorough = 4
    quick_budget_s = 90
    thorough_budget_s = 1300
    rule = ("2-3 column tables, 4-14 rows, 2-5 distinct tuples each with >= 2 rows and both labels; string cells are "
            "0-3 pieces of {',', '\\\\', 'a', '1', '1.0', '', ' '}; 45% of string tables contain a planted pair of tuples "
            "that collide under a classic slip (no escaping / only comma / only backslash / swapped order); numeric "
            "tables: int, float, int+float, str+int, str+float columns and an object column mixing 1 and 1.0 (compared "
            "as strings); containers DataFrame / object ndarray / unicode ndarray / numeric ndarray / list of lists; "
            "optional 2-column control table. Observed: moment tags['group_id'], index, events; MetricFrame cells; "
            "ThresholdOptimizer interpolation_dict keys + _pmf_predict on permuted/new (tuple, score) rows, also with "
            "another container at predict time; EG/GridSearch lambda_vecs_ index and predictions vs. the same fit on "
            "first-principles group ids. distinct = distinct (cols, container, table, labels, targets); non-trivial = "
            ">= 2 distinct tuples. 15% 'callers' cases: 1-3 columns incl. a single str/int/float/bool/mixed column in a flat "
            "list, Series, (n,1) DataFrame / object array or 1-d array, object tables with bools, None and look-alike "
            "strings ('True', 'None', '1', '1.0'), 1- or 2-column control features, ThresholdOptimizer queried in another "
            "container at predict time. thorough: one table holding all 441 two-column tuples with values of length <= 2 "
            "over {',', '\\\\', 'a', ' '} per container, and every pair of those tuples as its own 4-row table")
    explanation = ("theorems over the Lean model Merge (all inputs); encoder constants lifted from the source; "
                   "correspondence: merged keys/partitions from moments, EG, GridSearch, ThresholdOptimizer vs compiled "
                   "driver; oracle: tuple-of-strings equality, MetricFrame cells, same-tuple rule at predict time")
    trusted = ("numpy astype(str) of a homogeneous array (str()/repr() of int64/float64/str cells) is modelled by Python "
               "str()/repr(); values with trailing NUL characters are outside the alphabet (numpy strips them)",
               "pandas groupby / MultiIndex on the merged string column",
               "python str.replace with a one-character pattern = per-character substitution (List.flatMap in the model)")
    assumptions = ("every row has the same number (>= 1) of columns",
                   "cells are str, int, float or bool; None only inside object arrays (where numpy's astype(str) yields "
                   "'None'; a None in a DataFrame column that pandas types is a missing value and the table is rejected, a column "
                   "that is None throughout stays object and is stringified - either outcome is accepted); no NaN")

    # ---------------------------------------------------------------- generation
    def _rand_str(self, rng):
        return "".join(rng.choice(PIECES) for _ in range(rng.choice([0, 1, 1, 2, 2, 3])))

    def _rand_cell(self, rng, kind):
        if kind == "s":
            return self._rand_str(rng)
        if kind == "i":
            return rng.choice(INTS)
        if kind == "f":
            return rng.choice(FLOATS)
        return rng.choice(MIXED)

    def _make(self, rng, cols, container, tuples, extra, light=False):
        g = len(tuples)
        assign = []
        for t in range(g):
            assign += [(t, 0), (t, 1)]
        for _ in range(extra):
            assign.append((rng.randrange(g), rng.randint(0, 1)))
        rng.shuffle(assign)
        rows = [list(tuples[t]) for t, _ in assign]
        y = [lab for _, lab in assign]
        n = len(rows)
        scores = [str(F(rng.randint(0, 8), 8)) for _ in range(n)]
        query = [[i, scores[i]] for i in rng.sample(range(n), n)]
        for _ in range(3):
            query.append([rng.randrange(n), str(F(rng.randint(-1, 17), 16))])
        case = {"cols": cols, "container": container, "rows": rows, "y": y, "scores": scores, "query": query,
                "ctrl": None, "moment": rng.choice(MOMENTS), "do": ["moment", "mf"]}
        if light:
            case["do"] = ["moment"]
            case["moment"] = "DP"
            return case
        if rng.random() < 0.35:
            ct = []
            while len(ct) < rng.choice([2, 3]):
                t = (self._rand_str(rng), self._rand_str(rng))
                if t not in ct:
                    ct.append(t)
            if rng.random() < 0.5:
                name, a, b = COLLISIONS.pick(rng)
                ct = [a, b] + ct[:1]
            case["ctrl"] = [list(rng.choice(ct)) for _ in range(n)]
            case["moment"] = rng.choice(["DP", "EO"])
        r = rng.random()
        if r < 0.5:
            case["do"].append("to")
            case["to"] = {"constraints": rng.choice(["demographic_parity", "equalized_odds", "true_positive_rate_parity",
                                                     "false_negative_rate_parity"]),
                          "flip": rng.random() < 0.5, "grid": rng.choice([8, 16]),
                          "qcontainer": container}
            if all(c == "s" for c in cols):
                case["to"]["qcontainer"] = rng.choice(["df", "ndobj", "ndU", "list"])
            case["history"] = _history_flag(case)
        elif r < 0.58:
            case["do"].append("eg")
        elif r < 0.70:
            case["do"].append("gs")
        return case

    def _tuples(self, rng, cols, g, plant):
        tuples = []
        if plant and all(c == "s" for c in cols):
            name, a, b = COLLISIONS.pick(rng)
            if len(cols) == 3:
                x = self._rand_str(rng)
                if rng.random() < 0.5:
                    a, b = (x,) + tuple(a), (x,) + tuple(b)
                else:
                    a, b = tuple(a) + (x,), tuple(b) + (x,)
            tuples = [tuple(a), tuple(b)]
        tries = 0
        while len(tuples) < g and tries < 200:
            tries += 1
            t = tuple(self._rand_cell(rng, k) for k in cols)
            if t not in tuples and not any(all(type(u) is type(v) and u == v for u, v in zip(t, o)) for o in tuples):
                tuples.append(t)
        return tuples

    def _gen_callers(self, rng):
        ncol = rng.choice([1, 1, 1, 2, 3])
        if ncol == 1:
            kind = rng.choice(["s", "s", "i", "f", "m", "b", "sm"])
            if kind == "sm":          # strings and numbers in one object column ('1' vs 1 vs 1.0)
                cols, pool, conts = ["m"], ["1", 1, 1.0, "1.0", 2, "a"], ["series", "df", "ndobj"]
            else:
                cols, pool = [kind], CALLER_CELLS[kind]
                conts = ["flat", "series", "df", "ndobj", "nd1d"]
            vals = rng.sample(pool, min(len(pool), rng.choice([2, 3, 4])))
            tuples = [[v] for v in vals]
        else:
            cols = [rng.choice(["s", "b", "n", "B", "i"]) for _ in range(ncol)]
            cols[rng.randrange(ncol)] = "s"          # an object table: every cell is str() of its own value
            conts = ["ndobj", "df"]
            tuples = []
            for _ in range(40):
                t = [rng.choice(CALLER_CELLS[k]) for k in cols]
                if t not in tuples:
                    tuples.append(t)
                if len(tuples) >= rng.choice([2, 3, 4, 5]):
                    break
        container = rng.choice(conts)
        assign = []
        for t in range(len(tuples)):
            assign += [(t, 0), (t, 1)]
        for _ in range(rng.choice([0, 1, 3])):
            assign.append((rng.randrange(len(tuples)), rng.randint(0, 1)))
        rng.shuffle(assign)
        rows = [list(tuples[t]) for t, _ in assign]
        n = len(rows)
        case = {"kind": "callers", "cols": cols, "container": container, "rows": rows, "y": [lab for _, lab in assign],
                "scores": [str(F(rng.randint(0, 8), 8)) for _ in range(n)],
                "query": [[i, str(F(rng.randint(0, 16), 16))] for i in rng.sample(range(n), n)],
                "moment": rng.choice(["DP", "EO", "BGL", "ER"]), "ctrl": None, "ctrl_cols": 0,
                "to": rng.choice([None, "demographic_parity", "equalized_odds"]), "qcontainer": container}
        if ncol == 1 and cols[0] in "ifmb" and case["to"] and rng.random() < 0.5:
            case["qcontainer"] = rng.choice([c for c in conts])
        if rng.random() < 0.4:
            cc = rng.choice([1, 1, 2])
            cpool = [["x"], ["y"], ["1"]] if cc == 1 else [["x", ","], ["x,", ""], ["\\", "y"], ["x", "y"]]
            if cc == 1 and rng.random() < 0.4:
                cpool = [[1], [2], [10]]
            case["ctrl"] = [list(rng.choice(cpool)) for _ in range(n)]
            case["ctrl_cols"] = cc
            case["moment"] = rng.choice(["DP", "EO"])
        if case["to"]:
            case["history"] = _history_flag(case)
        return case

    def generate(self, rng, tier):
        while True:
            if rng.random() < 0.15:
                yield self._gen_callers(rng)
                continue
            r = rng.random()
            ncol = rng.choice([2, 2, 3])
            if r < 0.62:
                cols = ["s"] * ncol
                container = rng.choice(["df", "df", "ndobj", "ndU", "list"])
            elif r < 0.69:
                cols = ["i"] * ncol
                container = rng.choice(["df", "ndnum", "list"])
            elif r < 0.75:
                cols = ["f"] * ncol
                container = rng.choice(["df", "ndnum"])
            elif r < 0.82:
                cols = [rng.choice("if") for _ in range(ncol)]
                cols[0], cols[1] = "i", "f"
                container = rng.choice(["df", "ndnum", "ndobj", "list"])
            elif r < 0.90:
                cols = [rng.choice("si") for _ in range(ncol)]
                cols[0], cols[1] = "s", "i"
                rng.shuffle(cols)
                container = rng.choice(["df", "ndobj", "list"])
            elif r < 0.95:
                cols = [rng.choice("sf") for _ in range(ncol)]
                cols[0], cols[1] = "s", "f"
                rng.shuffle(cols)
                container = rng.choice(["df", "ndobj"])
            else:
                cols = [rng.choice("msi") for _ in range(ncol)]
                cols[0] = "m"
                container = "ndobj"
            g = rng.choice([2, 2, 3, 3, 4, 5])
            tuples = self._tuples(rng, cols, g, plant=rng.random() < 0.45)
            if len(tuples) < 2:
                continue
            yield self._make(rng, cols, container, tuples, extra=rng.choice([0, 0, 1, 2, 4]))

    def exhaustive(self, tier):
        import random
        rng = random.Random(1234)
        # callers: every pair of distinct values of each single-column pool in every container that can hold it
        for kind, pool, conts in (("s", CALLER_CELLS["s"], ["flat", "series", "df", "ndobj", "nd1d"]),
                                  ("i", CALLER_CELLS["i"], ["flat", "series", "df", "ndobj", "nd1d"]),
                                  ("f", CALLER_CELLS["f"], ["flat", "series", "df", "ndobj", "nd1d"]),
                                  ("m", ["1", 1, 1.0, "1.0", 2, "a", True], ["series", "df", "ndobj"])):
            for a, b in itertools.combinations(pool, 2):
                for cont in conts:
                    rows = [[a], [b], [a], [b]]
                    yield {"kind": "callers", "cols": [kind], "container": cont, "rows": rows, "y": [0, 0, 1, 1],
                           "scores": ["1/8", "1/2", "3/4", "1/4"], "query": [[0, "1/2"], [1, "1/2"], [2, "1/8"], [3, "7/8"]],
                           "moment": "DP", "ctrl": None, "ctrl_cols": 0, "to": "demographic_parity", "qcontainer": cont}
        alltup = list(itertools.product(_VALS2, repeat=2))
        for container in ("df", "ndobj", "ndU", "list"):
            c = self._make(rng, ["s", "s"], container, alltup, extra=0)
            c["do"] = ["moment", "mf"]
            c["moment"] = "DP"
            yield c
        # every pair of distinct tuples as its own small table (light path: one moment)
        k = 0
        for i in range(len(alltup)):
            for j in range(i + 1, len(alltup)):
                k += 1
                container = ("df", "ndobj", "ndU", "list")[k % 4]
                yield self._make(rng, ["s", "s"], container, [alltup[i], alltup[j]], extra=0, light=True)

    def shrink(self, case):
        if case.get("kind") == "callers":
            if case.get("ctrl"):
                yield dict(case, ctrl=None, ctrl_cols=0)
            if case.get("to"):
                yield dict(case, to=None)
            keys = [json.dumps(r) for r in case["rows"]]
            for d in sorted(set(keys)):
                keep = [i for i, k in enumerate(keys) if k != d]
                if len({keys[i] for i in keep}) >= 2:
                    c = self._sub(dict(case, do=[]), keep)
                    yield c
            return
        do = case["do"]
        for t in ("eg", "gs", "to", "mf"):
            if t in do and len(do) > 1:
                yield dict(case, do=[x for x in do if x != t])
        if case.get("ctrl"):
            yield dict(case, ctrl=None)
        srows = [json.dumps(r) for r in case["rows"]]
        distinct = sorted(set(srows))
        if len(distinct) > 2:
            for d in distinct:
                keep = [i for i, s in enumerate(srows) if s != d]
                yield self._sub(case, keep)
        # drop surplus rows of a tuple (keep two rows with both labels)
        for i in range(len(srows)):
            same = [j for j, s in enumerate(srows) if s == srows[i]]
            labs = [case["y"][j] for j in same if j != i]
            if len(same) > 2 and 0 in labs and 1 in labs:
                yield self._sub(case, [j for j in range(len(srows)) if j != i])
        if len(case["cols"]) == 3:
            for k in range(3):
                c = dict(case, cols=case["cols"][:k] + case["cols"][k + 1:],
                         rows=[r[:k] + r[k + 1:] for r in case["rows"]])
                yield c
        for k in range(len(case["cols"])):
            if case["cols"][k] == "s":
                vals = sorted({r[k] for r in case["rows"]}, key=len, reverse=True)
                for v in vals:
                    if len(v) > 1:
                        for w in (v[1:], v[:-1]):
                            yield dict(case, rows=[[w if (kk == k and x == v) else x for kk, x in enumerate(r)]
                                                   for r in case["rows"]])

    def _sub(self, case, keep):
        remap = {old: new for new, old in enumerate(keep)}
        c = dict(case)
        c["rows"] = [case["rows"][i] for i in keep]
        c["y"] = [case["y"][i] for i in keep]
        c["scores"] = [case["scores"][i] for i in keep]
        c["query"] = [[remap[i], s] for i, s in case["query"] if i in remap]
        if case.get("ctrl"):
            c["ctrl"] = [case["ctrl"][i] for i in keep]
        return c

    # ---------------------------------------------------------------- implementation
    def _impl_callers(self, case):
        import pandas as pd
        rows, y = case["rows"], np.array(case["y"])
        n = len(rows)
        scores = np.array([float(F(s)) for s in case["scores"]])
        X = scores.reshape(-1, 1)
        table = caller_table(case, rows)
        kw = {"sensitive_features": table}
        if case.get("ctrl"):
            cvals = case["ctrl"]
            kw["control_features"] = (pd.DataFrame({f"c{k}": [r[k] for r in cvals] for k in range(case["ctrl_cols"])})
                                      if case["ctrl_cols"] > 1 else pd.Series([r[0] for r in cvals]))
        m = make_moment(case["moment"])
        if case["moment"] in ("BGL", "ER"):
            kw.pop("control_features", None)
        try:
            m.load_data(X, y, **kw)
        except ValueError:
            # a None cell in a DataFrame is a pandas missing value: sklearn's check_array rejects the table
            return {"rejected": "ValueError"}
        gids = list(m.tags["group_id"])
        out = {"gid": [canon(v) if len(case["cols"]) == 1 else str(v) for v in gids],
               "gid_str": [isinstance(v, str) for v in gids]}
        if "control_features" in kw:
            out["events"] = ["<null>" if not isinstance(v, str) else v for v in m.tags["event"]]
        if case.get("to"):
            from fairlearn.postprocessing import ThresholdOptimizer
            keys = [caller_key(case, r) for r in rows]
            rank = {k: i for i, k in enumerate(sorted(set(keys), key=str))}
            ref_ids = [f"g{rank[k]:03d}" for k in keys]

            def fit(sf, history=False):
                to = ThresholdOptimizer(estimator=make_pass(), constraints=case["to"], prefit=True,
                                        predict_method="predict", grid_size=8)
                if history:     # the object under test had a previous life (other data, one extra group); the reference is fresh
                    thr_common.previous_life(to, np.asarray(X, dtype=float).reshape(-1), y, ref_ids, "g-previous-life")
                to.fit(X, y, sensitive_features=sf)
                return to
            try:
                to, ref = fit(table, bool(case.get("history"))), fit(ref_ids)
                d = to.interpolated_thresholder_.interpolation_dict
                qidx = [i for i, _ in case["query"]]
                qs = np.array([float(F(s)) for _, s in case["query"]]).reshape(-1, 1)
                qtab = caller_table(case, [rows[i] for i in qidx], case["qcontainer"])
                out["to"] = {"keys": [canon(k) if len(case["cols"]) == 1 else str(k) for k in d],
                             "pmf": [float(v) for v in to._pmf_predict(qs, sensitive_features=qtab)[:, 1]],
                             "pmf_ref": [float(v) for v in
                                         ref._pmf_predict(qs, sensitive_features=[ref_ids[i] for i in qidx])[:, 1]]}
            except ValueError as e:
                out["to"] = {"exc": "ValueError", "degenerate": "egenerate" in str(e)}
        return out

    def impl(self, case):
        if case.get("kind") == "callers":
            return self._impl_callers(case)
        import logging
        logging.getLogger("fairlearn").setLevel(logging.ERROR)
        for nm in list(logging.root.manager.loggerDict):
            if "fairlearn" in nm:
                logging.getLogger(nm).setLevel(logging.ERROR)
        from fairlearn.metrics import MetricFrame
        rows, y = case["rows"], np.array(case["y"])
        n = len(rows)
        scores = np.array([float(F(s)) for s in case["scores"]])
        X = scores.reshape(-1, 1)
        table = build_container(case, rows)
        ctrl = None
        if case.get("ctrl"):
            ctrl = build_container({"container": "df"}, case["ctrl"], "df")
        out = {}
        # --- a moment's load_data
        m = make_moment(case["moment"])
        kw = {"sensitive_features": table}
        if ctrl is not None:
            kw["control_features"] = ctrl
        m.load_data(X, y, **kw)
        gid = [str(v) for v in m.tags["group_id"]]
        out["gid"] = gid
        out["gid_is_str"] = all(isinstance(v, str) for v in m.tags["group_id"])
        idx = m.index
        if hasattr(idx, "get_level_values") and getattr(idx, "nlevels", 1) > 1:
            out["index_groups"] = sorted({str(v) for v in idx.get_level_values("group_id")})
        elif case["moment"] == "BGL":
            out["index_groups"] = sorted({str(v) for v in idx})
        else:
            out["index_groups"] = None
        if ctrl is not None:
            out["events"] = ["<null>" if not isinstance(v, str) else v for v in m.tags["event"]]
        # --- MetricFrame cells
        if "mf" in case["do"] and "m" not in case["cols"] and n <= 50:
            ids = np.array([2 ** i for i in range(n)], dtype=np.int64)

            def msum(yt, yp):
                return int(sum(int(v) for v in yt))
            mtab = table if not isinstance(table, list) else build_container(case, rows, "ndobj")
            mf = MetricFrame(metrics=msum, y_true=ids, y_pred=ids, sensitive_features=mtab)
            cells = []
            for v in mf.by_group.tolist():
                if v is None or (isinstance(v, float) and math.isnan(v)):
                    continue
                v = int(v)
                if v:
                    cells.append([i for i in range(n) if (v >> i) & 1])
            out["mf"] = sorted(cells, key=lambda c: c[0])
        elif "mf" in case["do"] and "m" not in case["cols"]:
            # large tables: group sizes only are not enough; use row ids through count + first/last id
            mtab = table if not isinstance(table, list) else build_container(case, rows, "ndobj")
            ids = np.arange(n)
            mf = MetricFrame(metrics={"lo": lambda yt, yp: int(np.min(yt)), "hi": lambda yt, yp: int(np.max(yt)),
                                      "cnt": lambda yt, yp: int(len(yt)), "sum": lambda yt, yp: int(np.sum(yt))},
                             y_true=ids, y_pred=ids, sensitive_features=mtab)
            bg = mf.by_group.dropna().to_dict("records")
            out["mf_summary"] = sorted([int(r["lo"]), int(r["hi"]), int(r["cnt"]), int(r["sum"])] for r in bg)
        # --- first-principles tuples -> impl keys (only meaningful if the partition is right; judged separately)
        srows = str_rows(case, rows)
        t2k = {}
        consistent = True
        for t, k in zip(srows, gid):
            if t2k.setdefault(t, k) != k:
                consistent = False
        if len(set(t2k.values())) != len(t2k):
            consistent = False
        out["consistent"] = consistent
        rank = {k: i for i, k in enumerate(sorted(set(gid)))}
        ref_ids = [f"g{rank[k]:03d}" for k in gid]
        qidx = [i for i, _ in case["query"]]
        qscores = np.array([float(F(s)) for _, s in case["query"]]).reshape(-1, 1)
        # --- ThresholdOptimizer
        if "to" in case["do"] and consistent:
            from fairlearn.postprocessing import ThresholdOptimizer
            cfg = case["to"]

            def fit(sf, history=False):
                to = ThresholdOptimizer(estimator=make_pass(), constraints=cfg["constraints"], prefit=True,
                                        predict_method="predict", grid_size=cfg["grid"], flip=cfg["flip"])
                if history:     # the object under test had a previous life (other data, one extra group); the reference is fresh
                    thr_common.previous_life(to, np.asarray(X, dtype=float).reshape(-1), y, ref_ids, "g-previous-life")
                to.fit(X, y, sensitive_features=sf)
                return to
            try:
                to = fit(table, bool(case.get("history")))
                ref = fit(ref_ids)
                d = to.interpolated_thresholder_.interpolation_dict
                dr = ref.interpolated_thresholder_.interpolation_dict
                res = {"keys": sorted(str(k) for k in d), "n_ref": len(dr)}
                res["rules"] = {str(k): bunch_sig(v) for k, v in d.items()}
                res["ref_rules"] = {str(k): bunch_sig(v) for k, v in dr.items()}
                qrows = [rows[i] for i in qidx]
                qtab = build_container(case, qrows, cfg["qcontainer"])
                res["pmf"] = [float(v) for v in to._pmf_predict(qscores, sensitive_features=qtab)[:, 1]]
                res["pmf_ref"] = [float(v) for v in
                                  ref._pmf_predict(qscores, sensitive_features=[ref_ids[i] for i in qidx])[:, 1]]
                p1 = to.predict(qscores, sensitive_features=qtab, random_state=7)
                p2 = ref.predict(qscores, sensitive_features=[ref_ids[i] for i in qidx], random_state=7)
                res["pred_equal"] = bool(np.array_equal(np.asarray(p1), np.asarray(p2)))
                # single-row query
                one = build_container(case, qrows[:1], cfg["qcontainer"])
                res["pmf_one"] = [float(v) for v in to._pmf_predict(qscores[:1], sensitive_features=one)[:, 1]]
                out["to"] = res
            except ValueError as e:
                out["to"] = {"exc": "ValueError", "degenerate": "egenerate" in str(e)}
        # --- reductions
        for which in ("eg", "gs"):
            if which in case["do"] and consistent:
                import fairlearn.reductions as red
                from sklearn.tree import DecisionTreeClassifier

                def fit(sf):
                    est = DecisionTreeClassifier(max_depth=2, random_state=0)
                    if which == "eg":
                        mit = red.ExponentiatedGradient(est, red.DemographicParity(), max_iter=6)
                    else:
                        mit = red.GridSearch(est, red.DemographicParity(), grid_size=5)
                    mit.fit(X, y, sensitive_features=sf)
                    return mit
                a, b = fit(table), fit(ref_ids)
                lv = a.lambda_vecs_
                groups = sorted({str(v) for v in lv.index.get_level_values("group_id")})
                res = {"groups": groups}
                if which == "eg":
                    res["pmf"] = [float(v) for v in a._pmf_predict(qscores)[:, 1]]
                    res["pmf_ref"] = [float(v) for v in b._pmf_predict(qscores)[:, 1]]
                    res["n_pred"] = [len(a.predictors_), len(b.predictors_)]
                else:
                    res["pmf"] = [float(v) for v in a.predict(qscores)]
                    res["pmf_ref"] = [float(v) for v in b.predict(qscores)]
                    res["n_pred"] = [len(a.predictors_), len(b.predictors_)]
                out[which] = res
        return out

    # ---------------------------------------------------------------- model lines
    def _caller_tokens(self, case):
        if len(case["cols"]) == 1:
            return [(canon(r[0]),) for r in case["rows"]]
        return str_rows(case, case["rows"])

    def lines(self, case, o):
        if case.get("kind") == "callers":
            tab = fmt_table(self._caller_tokens(case))
            ls = [f"merge.encode sf {tab}", f"merge.encode.classes sf {tab}"]
            if case.get("ctrl") and isinstance(o, dict) and "events" in o:
                ls.append("merge.encode cf " + fmt_table([tuple(str(v) for v in r) for r in case["ctrl"]]))
            return ls
        srows = str_rows(case, case["rows"])
        tab = fmt_table(srows)
        ls = [f"merge.keys {tab}", f"merge.classes {tab}", f"merge.cells {len(case['cols'])} {tab}"]
        if case.get("ctrl"):
            ctab = fmt_table([tuple(r) for r in case["ctrl"]])
            ls += [f"merge.keys {ctab}", f"merge.classes {ctab}"]
        if isinstance(o, dict) and isinstance(o.get("to"), dict) and "keys" in o["to"]:
            for k in o["to"]["keys"]:
                ls.append(f"merge.split {proto.s(k)}")
        return ls

    # ---------------------------------------------------------------- judging
    def judge(self, case, o, mo):
        if "crash" in o:
            return [Problem("correspondence", f"implementation crashed: {o}", "impl-total")]
        if case.get("kind") == "callers":
            return self._judge_callers(case, o, mo)
        probs = []
        rows = case["rows"]
        n = len(rows)
        srows = str_rows(case, rows)
        want = classes_of(srows)                         # oracle: tuple-of-strings equality

        def describe(got):
            """a concrete pair of rows that is wrongly merged or wrongly separated"""
            cls = {}
            for c in got:
                for i in c:
                    cls[i] = c[0]
            for i in range(n):
                for j in range(i + 1, n):
                    same_t = srows[i] == srows[j]
                    same_g = cls.get(i, -1 - i) == cls.get(j, -1 - j)
                    if same_t != same_g:
                        return (f"rows {i}:{srows[i]!r} and {j}:{srows[j]!r} "
                                + ("differ in a column but share a group" if same_g else "are equal but are in different groups"))
            return "partition differs"
        # 1. moment: group ids
        got = classes_of(o["gid"])
        if got != want:
            probs.append(Problem("property", f"{case['moment']}.tags['group_id']: {describe(got)}", "C13.same_group_iff"))
        if not o.get("gid_is_str", True):
            probs.append(Problem("correspondence", "group ids are not strings", "C13.merge_keys"))
        if o.get("index_groups") is not None:
            if len(o["index_groups"]) != len(want):
                probs.append(Problem("property", f"{case['moment']}.index has {len(o['index_groups'])} groups, the table has "
                                                 f"{len(want)} distinct tuples", "C13.partition_eq_tuple"))
            if sorted(set(o["gid"])) != o["index_groups"]:
                probs.append(Problem("correspondence", "index group level differs from the group ids of the rows", "C13.index_groups"))
        # 2. control features -> events
        if case.get("ctrl"):
            crow = [tuple(r) for r in case["ctrl"]]
            if case["moment"] == "EO":
                cw = classes_of([(t, yy) for t, yy in zip(crow, case["y"])])
            else:
                cw = classes_of(crow)
            cg = classes_of(o["events"])
            if cg != cw:
                probs.append(Problem("property", f"{case['moment']} events with control features do not partition the rows by "
                                                 f"control tuple: got {cg}, tuple equality gives {cw}", "C13.same_group_iff(control)"))
        # 3. MetricFrame
        if "mf" in o and o["mf"] != want:
            if got == want:
                probs.append(Problem("property", f"MetricFrame's non-empty intersectional cells {o['mf']} differ from the merged-key "
                                                 f"partition {got}", "C13.partition_eq_metricframe"))
            else:
                probs.append(Problem("property", f"merged-key partition {got} differs from MetricFrame's cells {o['mf']}",
                                     "C13.partition_eq_metricframe"))
        if "mf_summary" in o:
            ws = sorted([min(c), max(c), len(c), sum(c)] for c in want)
            if o["mf_summary"] != ws:
                probs.append(Problem("property", "MetricFrame's cells (min,max,count,sum of row ids) differ from tuple equality",
                                     "C13.partition_eq_metricframe"))
        # 4. model
        k = 0
        if mo is not None:
            if any(x == "bad-op" for x in mo):
                probs.append(Problem("harness", f"driver rejected a line: {list(zip(self.lines(case, o), mo))[:3]}"))
                return probs
            mkeys = proto.p_strs(mo[0])
            if mkeys != o["gid"]:
                bad = [i for i in range(n) if mkeys[i] != o["gid"][i]][:1]
                i = bad[0] if bad else 0
                probs.append(Problem("correspondence", f"merged key of row {i} {srows[i]!r}: implementation {o['gid'][i]!r}, "
                                                       f"model {mkeys[i]!r}", "C13.merge_keys"))
            # The encoder of the model is lifted from the source under test.  If the model reproduces the
            # implementation's keys but not the oracle's partition, the *source* lost injectivity (already reported
            # above through the implementation's own partition); only a model that disagrees with both is our bug.
            follows_impl = mkeys == o["gid"]
            if p_classes(mo[1]) != want and not (follows_impl and got != want):
                probs.append(Problem("harness", f"model classes {mo[1]} vs oracle {want}"))
            if p_classes(mo[2]) != want:
                probs.append(Problem("harness", f"model intersectional cells {mo[2]} vs oracle {want}"))
            k = 3
            if case.get("ctrl"):
                crow = [tuple(r) for r in case["ctrl"]]
                ck = proto.p_strs(mo[3])
                base = {"DP": lambda yy: "all", "EO": lambda yy: f"label={yy}"}[case["moment"]]
                exp_events = [f"control={c},{base(yy)}" for c, yy in zip(ck, case["y"])]
                if exp_events != o["events"]:
                    probs.append(Problem("correspondence", f"events {o['events'][:2]} vs model {exp_events[:2]}", "C13.control_events"))
                ctrl_bad = any(p.relation == "C13.same_group_iff(control)" for p in probs)
                if p_classes(mo[4]) != classes_of(crow) and not (exp_events == o["events"] and ctrl_bad):
                    probs.append(Problem("harness", "model control classes vs oracle"))
                k = 5
        # 5. ThresholdOptimizer
        to = o.get("to")
        if to is not None:
            if "exc" in to:
                cnt = collections.defaultdict(set)
                for t, yy in zip(srows, case["y"]):
                    cnt[t].add(yy)
                if all(len(v) == 2 for v in cnt.values()):
                    probs.append(Problem("property", f"ThresholdOptimizer.fit raised {to} although every tuple has both labels",
                                         "C13.to_fit"))
            else:
                distinct = sorted(set(srows))
                if len(to["keys"]) != len(distinct):
                    probs.append(Problem("property", f"interpolation_dict has {len(to['keys'])} keys {to['keys']}, the table has "
                                                     f"{len(distinct)} distinct tuples", "C13.to_keys"))
                if sorted(set(o["gid"])) != to["keys"]:
                    probs.append(Problem("correspondence", "interpolation_dict keys differ from the moment's group ids", "C13.to_keys"))
                # rule learned per tuple == rule learned for the first-principles group id
                rank = {kk: i for i, kk in enumerate(sorted(set(o["gid"])))}
                for kk, sig in sorted(to["rules"].items()):
                    rid = f"g{rank.get(kk, -1):03d}"
                    rs = to["ref_rules"].get(rid)
                    if rs is None or not sig_close(sig, rs):
                        probs.append(Problem("property", f"rule learned for key {kk!r} is {sig}, the rule learned from exactly the rows "
                                                         f"with that tuple is {rs}", "C13.to_rule_per_tuple"))
                        break
                if len(to["pmf"]) != len(to["pmf_ref"]):
                    probs.append(Problem("property", f"predict time: {len(to['pmf'])} probabilities for {len(to['pmf_ref'])} query rows",
                                         "C13.predict_rule_same_tuple"))
                for qi, (a, b) in enumerate(zip(to["pmf"], to["pmf_ref"])):
                    if abs(a - b) > TOL:
                        i, s = case["query"][qi]
                        probs.append(Problem("property", f"predict time: row with tuple {srows[i]!r} and score {s} gets P(1)={a}, the rule "
                                                         f"learned for that tuple gives {b}", "C13.predict_rule_same_tuple"))
                        break
                if to["pmf_one"] and abs(to["pmf_one"][0] - to["pmf_ref"][0]) > TOL:
                    probs.append(Problem("property", f"single-row query gets P(1)={to['pmf_one'][0]}, expected {to['pmf_ref'][0]}",
                                         "C13.predict_rule_same_tuple"))
                if not to["pred_equal"]:
                    probs.append(Problem("property", "predict(random_state=7) differs from the same model on first-principles group ids",
                                         "C13.predict_rule_same_tuple"))
                if mo is not None:
                    dec = [tuple(proto.p_strs(x)) for x in mo[k:k + len(to["keys"])]]
                    if sorted(dec) != distinct and got == want:
                        probs.append(Problem("correspondence", f"decoding the interpolation_dict keys with the model's split gives {sorted(dec)[:3]}.., "
                                                               f"the training tuples are {distinct[:3]}..", "C13.split_join"))
        # 6. reductions
        for which in ("eg", "gs"):
            r = o.get(which)
            if r is None:
                continue
            if len(r["groups"]) != len(want):
                probs.append(Problem("property", f"{which}: lambda_vecs_ lists {len(r['groups'])} groups, the table has {len(want)} distinct tuples",
                                     "C13.partition_eq_tuple"))
            if r["n_pred"][0] != r["n_pred"][1] or any(abs(a - b) > TOL for a, b in zip(r["pmf"], r["pmf_ref"])):
                probs.append(Problem("property", f"{which}: fitted model differs from the one fitted on first-principles group ids "
                                                 f"({r['pmf'][:4]} vs {r['pmf_ref'][:4]})", "C13.reduction_same_partition"))
        return probs

    def _judge_callers(self, case, o, mo):
        """one column: the values themselves are the group ids (no stringification, compared by ==); several columns:
        tuples of str(cell); control features likewise; ThresholdOptimizer predicts with the rule of the same tuple"""
        probs = []
        rows = case["rows"]
        single = len(case["cols"]) == 1
        has_none_df = case["container"] == "df" and any(v is None for r in rows for v in r)
        if "rejected" in o:
            # A None in a DataFrame column that pandas types (a string or numeric column) is a missing value and sklearn's
            # check_array rejects the table; a column that is None THROUGHOUT stays dtype object and its cells become the
            # string 'None' (inside the property's "compared as strings" clause), like None in an object ndarray.  Which
            # of the two happens is pandas' dtype inference, not part of C13: a rejection is accepted as a result whenever
            # the DataFrame holds a None, and an accepted table is judged like any other.
            if not has_none_df:
                return [Problem("correspondence", f"table rejected ({case['container']}, rows {rows})",
                                "C13.callers_missing_values")]
            return []
        keys = [caller_key(case, r) for r in rows]
        want = classes_of(keys)
        got = classes_of(o["gid"])
        what = "value" if single else "tuple of strings"
        if got != want:
            probs.append(Problem("property", f"{case['moment']}.tags['group_id'] partitions the rows as {got}, equality of the "
                                             f"{what} gives {want} (rows {rows})", "C13.encode_same_group_iff"))
        if single:
            for r, is_str in zip(rows, o["gid_str"]):
                if is_str != isinstance(r[0], str):
                    probs.append(Problem("correspondence", f"single column: value {r[0]!r} became a "
                                                           f"{'string' if is_str else 'non-string'} group id", "C13.encode_single"))
                    break
        elif not all(o["gid_str"]):
            probs.append(Problem("correspondence", "several columns: group ids are not strings", "C13.encode_multi"))
        if "events" in o:
            ckeys = [tuple(str(v) for v in r) for r in case["ctrl"]]
            if case["moment"] == "EO":
                cw = classes_of([(t, yy) for t, yy in zip(ckeys, case["y"])])
            else:
                cw = classes_of(ckeys)
            if classes_of(o["events"]) != cw:
                probs.append(Problem("property", f"events with control features {classes_of(o['events'])} do not partition the rows "
                                                 f"by control tuple {cw}", "C13.same_group_iff(control)"))
        to = o.get("to")
        if to is not None:
            if "exc" in to:
                cnt = collections.defaultdict(set)
                for k, yy in zip(keys, case["y"]):
                    cnt[k].add(yy)
                if all(len(v) == 2 for v in cnt.values()):
                    probs.append(Problem("property", f"ThresholdOptimizer.fit raised {to} although every group has both labels",
                                         "C13.to_fit"))
            else:
                if len(to["keys"]) != len(set(keys)):
                    probs.append(Problem("property", f"interpolation_dict has {len(to['keys'])} keys, the table has {len(set(keys))} "
                                                     f"distinct {what}s", "C13.to_keys"))
                for qi, (a, b) in enumerate(zip(to["pmf"], to["pmf_ref"])):
                    if abs(a - b) > TOL:
                        i, sc = case["query"][qi]
                        probs.append(Problem("property", f"predict time ({case['qcontainer']}): row {rows[i]!r} with score {sc} gets "
                                                         f"P(1)={a}, the rule learned for that {what} gives {b}",
                                             "C13.predict_selects_same_tuple"))
                        break
        if mo is not None:
            if any(x == "bad-op" for x in mo):
                return probs + [Problem("harness", f"driver rejected a line: {list(zip(self.lines(case, o), mo))[:3]}")]
            toks = mo[0].split(",")
            mids = [(t[:2], proto.p_strs(t[2:])[0] if t[2:] != "-" else "") for t in toks]
            exp_tag = "r:" if single else "m:"
            if any(t != exp_tag for t, _ in mids):
                probs.append(Problem("correspondence", f"model (lifted merge test): {'merged' if single else 'raw'} group ids for a "
                                                       f"{len(case['cols'])}-column table, implementation "
                                                       f"{'strings' if all(o['gid_str']) else 'raw values'}", "Merge.encodeSensitive"))
            elif [v for _, v in mids] != o["gid"]:
                i = [j for j in range(len(rows)) if mids[j][1] != o["gid"][j]][0]
                probs.append(Problem("correspondence", f"group id of row {i} {rows[i]!r}: implementation {o['gid'][i]!r}, model "
                                                       f"{mids[i][1]!r}", "Merge.encodeSensitive"))
            if p_classes(mo[1]) != want and not probs:
                probs.append(Problem("harness", f"model classes {mo[1]} vs oracle {want}"))
            if len(mo) > 2 and "events" in o:
                ctoks = mo[2].split(",")
                cids = [proto.p_strs(t[2:])[0] if t[2:] != "-" else "" for t in ctoks]
                ctag = {t[:2] for t in ctoks}
                if ctag != ({"r:"} if case["ctrl_cols"] == 1 else {"m:"}):
                    probs.append(Problem("correspondence", f"model: control ids {sorted(ctag)} for {case['ctrl_cols']} control columns",
                                         "Merge.encodeControl"))
                base = {"DP": lambda yy: "all", "EO": lambda yy: f"label={yy}"}[case["moment"]]
                exp_events = [f"control={c},{base(yy)}" for c, yy in zip(cids, case["y"])]
                if exp_events != o["events"]:
                    probs.append(Problem("correspondence", f"events {o['events'][:2]} vs model {exp_events[:2]}", "Merge.encodeControl"))
        return probs

    def signature(self, case, o):
        if case.get("kind") == "callers":
            keys = [caller_key(case, r) for r in case["rows"]]
            tags = ["kind=callers", f"callers:ncol={len(case['cols'])}", f"callers:cols={''.join(case['cols'])}",
                    f"callers:container={case['container']}", f"callers:ctrl_cols={case['ctrl_cols']}"]
            raw = {json.dumps(r) for r in case["rows"]}
            if len(raw) > len(set(keys)):
                tags.append("callers:distinct-values-same-" + ("number" if len(case["cols"]) == 1 else "string"))
            if isinstance(o, dict) and "rejected" in o:
                tags.append("callers:rejected(None in DataFrame)")
            if isinstance(o, dict) and isinstance(o.get("to"), dict):
                tags.append("callers:to_exc" if "exc" in o["to"] else "callers:to")
                tags.append("history=refit-after-a-previous-life" if case.get("history") else "history=fresh")
                if case["qcontainer"] != case["container"]:
                    tags.append("callers:other_container_at_predict")
            return (json.dumps(case, sort_keys=True, default=str), len(set(keys)) >= 2, tags)
        srows = str_rows(case, case["rows"])
        distinct = sorted(set(srows))
        tags = [f"cols={''.join(case['cols'])}", f"container={case['container']}", f"n_rows={min(len(srows), 15)}",
                f"n_tuples={min(len(distinct), 6)}", f"moment={case['moment']}"] + [f"do={d}" for d in case["do"]]
        flat = "".join("".join(t) for t in distinct)
        if "," in flat:
            tags.append("has_separator")
        if "\\" in flat:
            tags.append("has_escape_char")
        if any(c == "" for t in distinct for c in t):
            tags.append("has_empty_cell")
        for name, f in sorted(_SLIPS.items()):
            enc = [",".join(f(x) for x in t) for t in distinct]
            if len(set(enc)) < len(enc):
                tags.append(f"collides_under_{name}")
        if case.get("ctrl"):
            tags.append("control_features")
        if isinstance(o, dict):
            if isinstance(o.get("to"), dict):
                tags.append("to_exc" if "exc" in o["to"] else f"to_{case['to']['constraints']}")
                tags.append("history=refit-after-a-previous-life" if case.get("history") else "history=fresh")
                if "exc" not in o["to"] and case["to"]["qcontainer"] != case["container"]:
                    tags.append("to_other_container_at_predict")
            if "crash" in o:
                tags.append("crash")
        key = (tuple(case["cols"]), case["container"], json.dumps(case["rows"]), tuple(case["y"]), tuple(case["do"]),
               json.dumps(case.get("ctrl")), case["moment"])
        return key, len(distinct) >= 2, tags
