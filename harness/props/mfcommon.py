"""Shared pieces of the MetricFrame checks (C01, C02, C03): the metric pool (python callables that are
handed to the real MetricFrame, their tags in the Lean driver, and their first-principles
definitions in exact Fractions), feature containers, canonicalisation of pandas results."""
import math
from fractions import Fraction as F

import numpy as np
import pandas as pd

from .. import proto

NAN = "nan"


# --------------------------------------------------------------------------- custom metrics
def mean_err(y_true, y_pred, sample_weight=None):
    """signed weighted mean error; can be negative / zero (C02: negative tables)"""
    w = np.ones(len(y_pred)) if sample_weight is None else np.asarray(sample_weight, dtype=float)
    return float(np.dot(np.asarray(y_pred, dtype=float) - np.asarray(y_true, dtype=float), w) / w.sum())


def fp_rows(y_true, y_pred, ids):
    return float(np.sum(np.asarray(ids, dtype=float)))


def fp_y(y_true, y_pred, ids):
    return float(np.dot(np.asarray(y_true, dtype=float), np.asarray(ids, dtype=float)))


def fp_pred(y_true, y_pred, ids):
    return float(np.dot(np.asarray(y_pred, dtype=float), np.asarray(ids, dtype=float)))


def fp_par(y_true, y_pred, a, ids):
    return float(np.dot(np.asarray(a, dtype=float), np.asarray(ids, dtype=float)))


def conf_mat(y_true, y_pred):
    """a non-scalar metric"""
    yt, yp = np.asarray(y_true), np.asarray(y_pred)
    return np.array([[int(np.sum((yt == a) & (yp == b))) for b in (0, 1)] for a in (0, 1)])


# tag -> (needs binary labels, weight-capable, needs ids, needs a)
POOL = {
    "count": dict(binary=False, w=False, ids=False, a=False),
    "selrate": dict(binary=False, w=True, ids=False, a=False),
    "tpr": dict(binary=True, w=True, ids=False, a=False),
    "fpr": dict(binary=True, w=True, ids=False, a=False),
    "tnr": dict(binary=True, w=True, ids=False, a=False),
    "fnr": dict(binary=True, w=True, ids=False, a=False),
    "meanpred": dict(binary=False, w=True, ids=False, a=False),
    "accuracy": dict(binary=True, w=True, ids=False, a=False),
    "meanerr": dict(binary=False, w=True, ids=False, a=False),
    "fprows": dict(binary=False, w=False, ids=True, a=False),
    "fpy": dict(binary=False, w=False, ids=True, a=False),
    "fppred": dict(binary=False, w=False, ids=True, a=False),
    "fppar": dict(binary=False, w=False, ids=True, a=True),
    "cm": dict(binary=True, w=False, ids=False, a=False),
}


def pyfunc(tag):
    import fairlearn.metrics as fm
    import sklearn.metrics as skm
    return {
        "count": fm.count, "selrate": fm.selection_rate, "tpr": fm.true_positive_rate,
        "fpr": fm.false_positive_rate, "tnr": fm.true_negative_rate, "fnr": fm.false_negative_rate,
        "meanpred": fm.mean_prediction, "accuracy": skm.accuracy_score, "meanerr": mean_err,
        "fprows": fp_rows, "fpy": fp_y, "fppred": fp_pred, "fppar": fp_par, "cm": conf_mat,
    }[tag]


def sample_params_of(spec, index=None):
    """the sample_params dict of one metric spec {'tag', 'w', 'ids', 'a'}.
    With `index` (a permuted, non-default pandas index) the array-valued parameters are passed as
    pandas Series carrying that index: rows must still be paired by position, never by label."""
    sp = {}
    if (len(spec.get("w") or ()) + len(spec.get("ids") or ())) % 2 == 1:
        # an unused (None-valued) sample parameter listed first must be skipped without affecting the others
        sp["unused"] = None
    wrap = (lambda a: pd.Series(a, index=index)) if index is not None else (lambda a: a)
    if spec.get("w") is not None:
        sp["sample_weight"] = wrap(np.array([float(F(x)) for x in spec["w"]]))
    if spec.get("ids") is not None:
        sp["ids"] = wrap(np.array([float(F(x)) for x in spec["ids"]]))
    if spec.get("a") is not None:
        sp["a"] = [float(F(x)) for x in spec["a"]]  # a plain list on purpose (container glue)
    return sp


def p0p1(spec, n):
    """(p0, p1) columns of the Lean payload for one metric spec"""
    t = POOL[spec["tag"]]
    if t["a"]:
        p0 = [F(x) for x in spec["a"]]
    elif spec.get("w") is not None:
        p0 = [F(x) for x in spec["w"]]
    else:
        p0 = [F(1)] * n
    p1 = [F(x) for x in spec["ids"]] if spec.get("ids") is not None else [F(0)] * n
    return p0, p1


# --------------------------------------------------------------------------- exact oracle of the metrics
def oracle_metric(tag, rows):
    """rows: list of (y, pred, p0, p1) Fractions; returns Fraction, 'nan', 'inf', '-inf' or 'ns'."""
    def q(n, d):
        if d == 0:
            return NAN if n == 0 else ("inf" if n > 0 else "-inf")
        return F(n) / F(d)
    W = sum(r[2] for r in rows)
    if tag == "count":
        return F(len(rows))
    if tag == "selrate":
        return q(sum(r[2] for r in rows if r[1] == 1), W)
    if tag in ("tpr", "fnr", "fpr", "tnr"):
        cls = 1 if tag in ("tpr", "fnr") else 0
        hit = {"tpr": 1, "fnr": 0, "fpr": 1, "tnr": 0}[tag]
        den = sum(r[2] for r in rows if r[0] == cls)
        num = sum(r[2] for r in rows if r[0] == cls and r[1] == hit)
        return F(0) if den == 0 else F(num) / den     # sklearn: empty confusion-matrix row -> 0
    if tag == "meanpred":
        return q(sum(r[1] * r[2] for r in rows), W)
    if tag == "accuracy":
        return q(sum(r[2] for r in rows if r[0] == r[1]), W)
    if tag == "meanerr":
        return q(sum((r[1] - r[0]) * r[2] for r in rows), W)
    if tag == "fprows":
        return sum((r[3] for r in rows), F(0))
    if tag == "fpy":
        return sum((r[0] * r[3] for r in rows), F(0))
    if tag == "fppred":
        return sum((r[1] * r[3] for r in rows), F(0))
    if tag == "fppar":
        return sum((r[2] * r[3] for r in rows), F(0))
    if tag == "cm":
        return "ns"
    raise KeyError(tag)


# --------------------------------------------------------------------------- features
def enc_level(v):
    """order-preserving string encoding of a feature value for the Lean model (ints 0..999 zero padded)"""
    if isinstance(v, (bool, np.bool_)):
        return "bool:" + str(v)
    if isinstance(v, (int, np.integer)):
        return "%03d" % int(v)
    if isinstance(v, str):
        return v
    return "other:" + repr(v)


def feature_arg(cols, names, container, index=None):
    """cols: list of columns (lists of str/int); returns (argument for MetricFrame, expected names or None)"""
    k = len(cols)
    if container == "dict":
        return {nm: list(c) for nm, c in zip(names, cols)}
    if container == "df":
        return pd.DataFrame({nm: list(c) for nm, c in zip(names, cols)}, index=index)
    if container == "list":
        assert k == 1
        return list(cols[0])
    if container == "series":
        assert k == 1
        return pd.Series(list(cols[0]), name=names[0], index=index)
    if container == "series_noname":
        assert k == 1
        return pd.Series(list(cols[0]), index=index)
    if container == "ndarray":
        if k == 1:
            return np.array(list(cols[0]))
        return np.array([[c[i] for c in cols] for i in range(len(cols[0]))], dtype=object)
    raise KeyError(container)


def expected_names(base, names, container, k):
    if container in ("dict", "df", "series"):
        return list(names)
    return [f"{base}{i}" for i in range(k)]


# --------------------------------------------------------------------------- canonicalisation
def tok(v):
    """canonical token of one cell of a pandas result"""
    if isinstance(v, (list, tuple, np.ndarray, pd.Series, pd.DataFrame)):
        return "ns"
    if v is None:
        return "none"
    try:
        x = float(v)
    except (TypeError, ValueError):
        return "other:" + type(v).__name__
    if math.isnan(x):
        return NAN
    if math.isinf(x):
        return "inf" if x > 0 else "-inf"
    return x


def key_of(ix, nlev):
    if nlev == 1 and not isinstance(ix, tuple):
        ix = (ix,)
    return [enc_level(v) for v in ix]


def series_table(s, nlev):
    """[[key, token], ...] of a Series whose index has nlev levels"""
    return [[key_of(ix, nlev), tok(v)] for ix, v in zip(s.index.tolist(), s.tolist())]


def same(got, want, tol=1e-12):
    """compare an implementation token with an exact value (Fraction or token string)"""
    if isinstance(want, str):
        return got == want
    if isinstance(got, str):
        return False
    w = float(want)
    return abs(got - w) <= tol * max(1.0, abs(w))


def model_tok(t):
    """token of the Lean driver -> Fraction or string token"""
    if t in ("nan", "inf", "-inf", "ns", "raised"):
        return t
    return proto.p_rat(t)


def parse_keys(tokn):
    if tokn == "none":
        return []
    return [proto.p_strs(k) for k in tokn.split(";")]


def parse_cells(tokn):
    if tokn == "none":
        return []
    return [model_tok(c) for c in tokn.split(",")]
