"""C17 — adversarial fit is the documented step schedule; predict stays in label space.

Two kinds of cases:
  kind="sched": a recording `BackendEngine` subclass is passed through the public `backend=` parameter; it logs the
      rows of every `train_step` (row number in X[:,0], y and the sensitive feature are functions of the row number, so
      mis-aligned slices are seen); callbacks log (callback index, step, n_iter_ at call time).  Compared with the Lean
      `schedule` (flat) and `fitLoop` (nested loops) models and with a closed-form oracle.
  kind="real": real PyTorch engine.  `fit(shuffle=False)` vs a twin estimator (same constructor arguments, same
      random_state) that receives exactly the scheduled slices through `partial_fit`: all parameters must be equal
      bit for bit.  Then `predict` vs `_raw_predict` pushed through the documented decision rule
      (>= 0.5 -> larger class; first arg-max -> class; regression raw), int and str labels, incl. exact ties.
"""
import math
from fractions import Fraction as F

from .. import proto
from ..core import Check, Problem, register


# ------------------------------------------------------------------------------------------------ oracle
def ceil_div(a, b):
    return -(-a // b)


def oracle_schedule(n, bs, ep, mi, has_cb, stops):
    """closed form of the statement: (error | list of (lo, hi, step, callback fired))"""
    if ep == -1 and mi == -1:
        return "err"
    b = n if bs == -1 else bs
    batches = ceil_div(n, b)
    epochs = ceil_div(mi, batches) if ep == -1 else ep
    total = epochs * batches
    last = total
    by_max = False
    if mi != -1 and mi <= last:
        last, by_max = mi, True
    first_stop = min([k for k in stops if k >= 1], default=None) if has_cb else None
    if first_stop is not None and first_stop < last:
        last, by_max = first_stop, False
    out = []
    for k in range(1, last + 1):
        j = (k - 1) % batches
        fired = has_cb and not (by_max and k == last)
        out.append((j * b, min((j + 1) * b, n), k, fired))
    return out


def oracle_cbv(n, bs, ep, mi, cbs):
    """documented behaviour with callbacks that may return anything (callbacks `(T steps, N steps)`: True at T, a truthy
    value that is not a bool at N, something falsy otherwise): every callback is called after every completed step that does
    not exhaust max_iter; a truthy non-bool result is a RuntimeError at once (the remaining callbacks are not called);
    the run ends after the first step at which a callback returned True.  Returns (n_iter, slices, calls, exception)"""
    if any(v <= 0 and v != -1 for v in (bs, ep, mi)):
        return "setup:ValueError"      # documented: batch_size / epochs / max_iter are positive numbers or -1
    plan = oracle_schedule(n, bs, ep, mi, bool(cbs), [])
    if plan == "err":
        return "err"
    slices, calls = [], []
    for lo, hi, k, fired in plan:
        slices.append((lo, hi))
        if not (fired and cbs):
            continue
        stop = False
        for i, (t, nb) in enumerate(cbs):
            calls.append((i, k))
            if k in nb:
                return len(slices), slices, calls, "RuntimeError"
            stop = stop or (k in t)
        if stop:
            break
    return len(slices), slices, calls, "-"


def oracle_life(n, ops):
    """documented life cycle (first principles, independent of fairlearn and of the Lean model):
    predict before any fit -> NotFittedError; the first partial_fit builds the models, later ones continue;
    fit builds new models unless warm_start is set and models exist; n_iter_ = steps of the last fit.
    Returns per-op tokens `res:engines:n_iter:current engine/steps it has seen` and the slices of the current engine."""
    built, cur, slices, n_iter = 0, None, [], None
    out = []
    for op in ops:
        res = "ok"
        if op["op"] == "predict":
            if cur is None:
                res = "notfitted"
        elif op["op"] == "pfit":
            if cur is None:
                built += 1
                cur, slices = built, []
            slices.append((op["lo"], op["hi"]))
        else:
            if not (op["warm"] and cur is not None):
                built += 1
                cur, slices = built, []
            plan = oracle_schedule(n, op["bs"], op["ep"], op["mi"], False, [])
            slices += [(lo, hi) for lo, hi, _, _ in plan]
            n_iter = len(plan)
        out.append(f"{res}:{built}:{'x' if n_iter is None else n_iter}:" + ("x" if cur is None else f"{cur}/{len(slices)}"))
    return out, (None if cur is None else list(slices))


def _labels(style, idx):
    if style == "str":
        return ["k" + "abcdefg"[i] for i in idx]
    return [3 + 2 * i for i in idx]


_ENGINE = {}

# sha256 of the DEFINITIONS (doc comments and blank lines stripped) of lean/FairModel/Generated/AdvScheduleSrc.lean as
# lifted from the pinned tree.  While it matches, a model-vs-oracle disagreement is a bug of this machinery (exit 2);
# after a source edit that changed the lifted configuration it is a broken tie (exit 1).
PINNED_SRC_SHA256 = "2a6782c3963fb6a11e55dd01c69785874c9377aa8b68efd6fe5be320e2bc5775"
_SRC_STATE = {}


def src_fingerprint():
    import hashlib
    import os
    from .. import leanrun
    path = os.path.join(leanrun.LEAN, "FairModel", "Generated", "AdvScheduleSrc.lean")
    with open(path) as f:
        txt = leanrun.strip_comments(f.read())
    body = "\n".join(ln.rstrip() for ln in txt.splitlines() if ln.strip())
    return hashlib.sha256(body.encode()).hexdigest()


def src_changed():
    if "v" not in _SRC_STATE:
        try:
            _SRC_STATE["v"] = src_fingerprint() != PINNED_SRC_SHA256
        except OSError:
            _SRC_STATE["v"] = False
    return _SRC_STATE["v"]


def model_problem(msg):
    if src_changed():
        return Problem("correspondence", "the schedule interpreted from the LIFTED source departs from the documented one: "
                       + msg, "C17.lifted_cfg")
    return Problem("harness", msg)


def recording_engine():
    """a BackendEngine (the documented extension point of `backend=`) that only records"""
    if "cls" in _ENGINE:
        return _ENGINE["cls"]
    from fairlearn.adversarial._backend_engine import BackendEngine

    class RecordingEngine(BackendEngine):
        LOG = []
        GEN = 0          # engines constructed so far (every __setup of the estimator builds a new one)

        def __init__(self, base, X, Y, A):
            self.base = base
            RecordingEngine.GEN += 1
            self.gen = RecordingEngine.GEN
            self.rows = []           # (lo, hi) of every train_step this engine has seen

        def train_step(self, X, Y, A):
            RecordingEngine.LOG.append((X, Y, A))
            import numpy as np
            r = [int(v) for v in np.asarray(X)[:, 0]]
            self.rows.append((r[0], r[-1] + 1) if r == list(range(r[0], r[-1] + 1)) else ("?", r))
            return (0.0, 0.0)

        def evaluate(self, X):
            import numpy as np
            return np.zeros((X.shape[0], 1))

    _ENGINE["cls"] = RecordingEngine
    return RecordingEngine


@register
class CHECK(Check):
    pid = "C17"
    technique = ("Lean 4 theorems over the Schedule model (nested fit loops = fold of single steps over the flat schedule; "
                 "step counts, slice cover, callback numbering, early stop; decision rules) + correspondence with a "
                 "recording BackendEngine and with real PyTorch fit / partial_fit twins; translator tie: the schedule, stop rule, "
                 "life-cycle latches and decision rules are LIFTED from the Python source (harness/lifters/adv_schedule.py -> "
                 "Generated/AdvScheduleSrc.lean), interpreted by Model/SchedLifted.lean / SchedLife.lean, and the theorems are "
                 "re-proved for the lifted text")
    level_text = ("Theorems (all n, batch_size, epochs, max_iter incl. -1, all stop predicates): steps = min(epochs*ceil(n/b), "
                  "max_iter); epochs=-1 gives exactly max_iter steps; each epoch's slices are consecutive, non-empty and cover "
                  "0..n; steps numbered 1,2,..; callbacks fire after every step except one exhausting max_iter; stop at first "
                  "True; the nested loops of fit equal the left fold of the single-step entry point over the scheduled "
                  "slices (n_iter_ = number of steps); predict returns a member of the class list (>= threshold -> larger "
                  "class; first arg-max). Tie: recorded train_step slices / callback calls vs the compiled model; real torch "
                  "fit vs partial_fit twin compared bit for bit; predict vs _raw_predict through the rule. "
                  "LIFTED configuration (rejection guard, batch-size / batches / epochs expressions incl. ceil, slice bounds, order of "
                  "train_step / n_iter_ increment / max_iter test / callback block, stop accumulation `stop or result`, `return self` "
                  "exits, shuffle placement, single train_step of partial_fit, >= threshold / first arg-max / identity rules): "
                  "`lifted_cfg` proves it equal to the documented reference configuration and `src_*` re-prove step count, slice "
                  "cover, callback numbering for ANY list of callbacks, first-True stop and fit = fold of partial_fit (also for the "
                  "concrete projected-gradient step of C16) for the interpreter of the lifted text; life cycle (predict before fit "
                  "rejected, first partial_fit sets up once, cold / warm fit, fit = partial_fit twin incl. set-up) over the lifted "
                  "latch conditions.")
    design_ref = "DESIGN.md section 4, C17"
    quick_cases = 4000
    thorough_cases = 24000
    workers_thorough = 4
    quick_budget_s = 110
    thorough_budget_s = 1100
    rule = ("sched: n in 1..40, batch_size in {-1,1..45}, epochs in {-1,1..4}, max_iter in {-1,1..30} (both -1 -> rejection), "
            "callbacks none / one callable / list of 1-3 callables returning False, None or True at chosen steps, "
            "cbv: n in 1..16, 0-3 callbacks returning True / a truthy non-bool (1, 'stop', numpy.True_, [0], 2.5, a plain object) at "
            "chosen steps and otherwise a falsy value (False, None, 0, '', numpy.False_), compared with `schedsrc.fitv` "
            "(lifted `if self.callbacks_:` guard and result check: step count, slices, (callback, step) log, exception kind); "
            "in 15% of the cbv cases one of batch_size / epochs / max_iter is 0, -2, -3 or -7 (lifted range check of __setup), "
            "classifier (int/str labels) or regressor, ndarray/list/pandas containers, shuffle=False. "
            "real: n in 2..24, 1-3 dyadic features, y binary/multiclass/continuous with int or str labels, sensitive feature "
            "binary/multiclass, predictor/adversary lists with 0-1 hidden layers, SGD or Adam, both constraints; rows are "
            "ordered so that EVERY scheduled slice has all classes' type_of_target and the first slice contains all classes "
            "(partial_fit's documented requirement); 'tie' variant: zero-initialised user modules with learning rate 0 so "
            "outputs are exactly 0.5 / all equal. life: call histories of 1-5 calls (fit cold / warm_start, partial_fit with or "
            "without classes=, predict) on one estimator with the recording engine, n in 2..12. "
            "distinct = distinct case; non-trivial = at least 2 steps / 2 calls or a real-engine case. "
            "Not stated before (review R2): sched — X has the row number in column 0 and the constant 0.5 in column 1, y / sensitive "
            "feature are row number + 0.5 / + 0.25 (classifier: labels alternate), stop steps are drawn from 1..planned+1; "
            "real — n is cut so that a last partial slice has at least as many rows as there are classes, the sensitive feature "
            "is never continuous, at most ONE callback (stopping at one step in 1..planned+1), alpha in {0, 1/2, 1}, learning "
            "rate in {1/4, 1/16, 1/100} (regression 1/64, 1/100), 1-6 extra prediction rows with features k/4, |k| <= 12, "
            "ndarray / pandas containers only; parameters that are NaN in BOTH fit and twin count as equal (tagged "
            "nan_parameters); regression predict is compared with the raw output bit for bit; life — partial_fit windows have "
            "at least 2 rows, fit calls carry no callbacks, default (list) models of the recording engine")
    explanation = ("theorems over the Lean model Schedule; correspondence: recorded slices and callback calls vs `sched.run` "
                   "and `sched.loop` of the compiled driver (exact), fit vs partial_fit twin weights (bit-equal), predict vs "
                   "`sched.predbin/predmulti` on exactly converted raw outputs; the same observations vs the interpreter of the "
                   "LIFTED source (`schedsrc.fit` incl. the (callback, step) log, `schedsrc.predbin/predmulti`, `schedlife.run`); "
                   "oracle: closed-form schedule, documented life cycle and the decision rule in Python, independent of fairlearn "
                   "and of the Lean model. A model-vs-oracle disagreement is a HARNESS-ERROR only while Generated/AdvScheduleSrc.lean "
                   "has the pinned content; after a source edit it is reported as broken tie `C17.lifted_cfg`.")
    trusted = ("torch determinism on CPU with one thread (fit vs twin compared bit for bit)",
               "string labels are mapped order-preservingly to integers before entering the model",
               "the recording engine sees what a real engine would see (it is passed through the public backend= parameter)",
               "harness/lifters/adv_schedule.py: Python ast -> SchedCfg record (int/bool expressions over + - * // ceil floor min max "
               "== != < <= > >= and/or/not; statement roles found by data flow, everything else refused)",
               "numpy slicing clips `X[lo:hi]` at the array end (only relevant if the source drops the `min`)")
    assumptions = ("shuffle=False", "every slice given to partial_fit has the data's type_of_target and the first slice "
                   "contains all classes (else fairlearn's transformers reject / re-fit)", "CPU, one thread")

    # ------------------------------------------------------------------------------------------ generation
    def _sched_case(self, rng, tier):
        n = rng.choice([1, 2, 3, 5, 7, 8, 12, 16, 25, 40]) if rng.random() < 0.4 else rng.randint(1, 40)
        r = rng.random()
        if r < 0.15:
            bs = -1
        elif r < 0.3:
            bs = rng.choice([max(1, n - 1), n, n + 1, 45])
        else:
            bs = rng.randint(1, 45) if rng.random() < 0.3 else rng.randint(1, max(1, n))
        ep = rng.choice([-1, -1, 1, 1, 2, 3, 4])
        mi = rng.choice([-1, -1, -1] + [rng.randint(1, 30) for _ in range(4)])
        if ep == -1 and mi == -1 and rng.random() < 0.8:
            mi = rng.randint(1, 30)
        ncb = rng.choice([0, 1, 1, 1, 2, 3])
        cbs = []
        planned = "err" if (ep == -1 and mi == -1) else len(oracle_schedule(n, bs, ep, mi, False, []))
        for _ in range(ncb):
            stops = []
            if planned != "err" and rng.random() < 0.5:
                stops = sorted({rng.randint(1, max(1, planned + 1)) for _ in range(rng.choice([1, 1, 2]))})
            cbs.append({"stops": stops, "neg": rng.choice(["False", "None"])})
        return {"kind": "sched", "n": n, "bs": bs, "ep": ep, "mi": mi, "cbs": cbs,
                "cb_as": rng.choice(["callable", "list"]) if ncb == 1 else "list",
                "est": rng.choice(["classifier", "regressor", "base", "base"]), "style": rng.choice(["int", "str"]),
                "container": rng.choice(["ndarray", "ndarray", "list", "pandas"])}

    def _real_case(self, rng, tier):
        ykind = rng.choice(["binary", "binary", "multiclass", "continuous"])
        skind = rng.choice(["binary", "binary", "multiclass"])
        ky = {"binary": 2, "multiclass": rng.choice([3, 4]), "continuous": 0}[ykind]
        ks = {"binary": 2, "multiclass": 3}[skind]
        need = max(ky if ykind != "continuous" else 1, ks)        # rows the first slice must have
        minb = max(need, 3 if "multiclass" in (ykind, skind) else 1)
        n = rng.randint(max(2, minb), 24)
        if rng.random() < 0.2:
            bs = -1
        else:
            bs = rng.randint(minb, max(minb, n + 2))
        b = n if bs == -1 else bs
        rem = n % b if b < n else 0
        if rem and rem < minb:
            n = n - rem            # keep every slice acceptable to partial_fit
        ep = rng.choice([-1, 1, 1, 2, 3])
        mi = rng.choice([-1, -1, rng.randint(1, 12), rng.randint(1, 12)])
        if ep == -1 and mi == -1:
            mi = rng.randint(1, 12)
        d = rng.randint(1, 3)
        tie = rng.random() < 0.15
        planned = len(oracle_schedule(n, bs, ep, mi, False, []))
        stops = []
        if rng.random() < 0.35:
            stops = [rng.randint(1, planned + 1)]
        # labels: cyclic (every window of k consecutive rows has all k classes); binary rows beyond the first slice random
        def lab(k, kind):
            if kind == "continuous":
                return [str(F(2 * rng.randint(-8, 8) + 1, 4)) for _ in range(n)]
            v = [i % k for i in range(n)]
            if k == 2:
                v = v[:max(b, 2)] + [rng.randint(0, 1) for _ in range(n - max(b, 2))] if b < n else v
            return v
        return {"kind": "real", "n": n, "d": d, "bs": bs, "ep": ep, "mi": mi, "stops": stops,
                "X": [[str(F(rng.randint(-8, 8), 4)) for _ in range(d)] for _ in range(n)],
                "ykind": ykind, "ystyle": rng.choice(["int", "str"]), "y": lab(ky, ykind),
                "skind": skind, "sstyle": rng.choice(["int", "str"]), "sf": lab(ks, skind),
                "pred": rng.choice([[], [], [3, "sigmoid"], [2, "leaky_relu"], [4]]),
                "adv": rng.choice([[], [2], [3, "sigmoid"]]),
                "opt": rng.choice(["SGD", "SGD", "Adam"]),
                "lr": rng.choice(["1/64", "1/100"]) if ykind == "continuous" else rng.choice(["1/4", "1/16", "1/100"]),
                "constraint": rng.choice(["demographic_parity", "equalized_odds"]),
                "alpha": rng.choice(["0", "1", "1/2"]), "seed": rng.randint(0, 999), "tie": tie,
                "Xtest": [[str(F(rng.randint(-12, 12), 4)) for _ in range(d)] for _ in range(rng.randint(1, 6))],
                "container": rng.choice(["ndarray", "ndarray", "pandas"])}

    def _cbv_case(self, rng, tier):
        """callbacks returning values that are not bools (and runs without any callback): guard and result check"""
        n = rng.randint(1, 16)
        bs = rng.choice([-1, rng.randint(1, max(1, n)), rng.randint(1, 20)])
        ep = rng.choice([-1, 1, 2, 3])
        mi = rng.choice([-1, -1, rng.randint(1, 12)])
        if ep == -1 and mi == -1 and rng.random() < 0.9:
            mi = rng.randint(1, 12)
        if rng.random() < 0.15:       # a value outside the documented domain (positive or -1): rejected by the set-up
            bad = rng.choice([0, 0, -2, -3, -7])
            which = rng.choice(["bs", "ep", "mi"])
            bs, ep, mi = (bad if which == "bs" else bs), (bad if which == "ep" else ep), (bad if which == "mi" else mi)
        invalid = any(v <= 0 and v != -1 for v in (bs, ep, mi))
        planned = "err" if (invalid or (ep == -1 and mi == -1)) else len(oracle_schedule(n, bs, ep, mi, False, []))
        cbs = []
        for _ in range(rng.choice([0, 1, 1, 2, 2, 3])):
            t, nb = [], []
            if planned != "err":
                if rng.random() < 0.4:
                    t = sorted({rng.randint(1, planned + 1) for _ in range(rng.choice([1, 2]))})
                if rng.random() < 0.55:
                    nb = sorted({rng.randint(1, planned + 1) for _ in range(rng.choice([1, 1, 2]))})
            cbs.append({"T": t, "N": nb, "nb": rng.choice(["1", "str", "np_true", "list", "2.5", "obj"]),
                        "dflt": rng.choice(["False", "None", "0", "empty", "np_false"])})
        return {"kind": "cbv", "n": n, "bs": bs, "ep": ep, "mi": mi, "cbs": cbs,
                "cb_as": rng.choice(["callable", "list"]) if len(cbs) == 1 else "list",
                "est": rng.choice(["classifier", "regressor", "base"])}

    def _life_case(self, rng, tier):
        """call histories: fit (cold / warm), partial_fit, predict in any order on one estimator (recording engine)"""
        n = rng.randint(2, 12)
        est = rng.choice(["classifier", "regressor", "base"])
        ops = []
        for _ in range(rng.choice([1, 2, 2, 3, 3, 4, 5])):
            r = rng.random()
            if r < 0.2:
                ops.append({"op": "predict"})
            elif r < 0.55:
                w = rng.randint(2, n)
                lo = rng.randint(0, n - w)
                ops.append({"op": "pfit", "lo": lo, "hi": lo + w, "cg": rng.random() < 0.3})
            else:
                bs = rng.choice([-1, rng.randint(1, n), n + 1])
                ep = rng.choice([1, 1, 2, -1])
                mi = rng.choice([-1, -1, rng.randint(1, 5)])
                if ep == -1 and mi == -1:
                    mi = rng.randint(1, 5)
                ops.append({"op": "fit", "bs": bs, "ep": ep, "mi": mi, "warm": rng.random() < 0.5})
        return {"kind": "life", "n": n, "est": est, "ops": ops, "container": rng.choice(["ndarray", "ndarray", "pandas"])}

    def generate(self, rng, tier):
        while True:
            r = rng.random()
            if r < 0.52:
                yield self._sched_case(rng, tier)
            elif r < 0.62:
                yield self._cbv_case(rng, tier)
            elif r < 0.74:
                yield self._life_case(rng, tier)
            else:
                yield self._real_case(rng, tier)

    def exhaustive(self, tier):
        for n in range(1, 9):
            for bs in [-1] + list(range(1, 10)):
                for ep in (-1, 1, 2):
                    for mi in (-1, 1, 2, 3, 5, 8):
                        for cbs in ([], [{"stops": [], "neg": "False"}], [{"stops": [2], "neg": "None"}],
                                    [{"stops": [], "neg": "False"}, {"stops": [3], "neg": "False"}]):
                            yield {"kind": "sched", "n": n, "bs": bs, "ep": ep, "mi": mi, "cbs": cbs, "cb_as": "list",
                                   "est": "base", "style": "int", "container": "ndarray"}

    def shrink(self, case):
        if case["kind"] == "life":
            ops = case["ops"]
            for i in range(len(ops)):
                if len(ops) > 1:
                    yield dict(case, ops=ops[:i] + ops[i + 1:])
            for i, op in enumerate(ops):
                if op["op"] == "fit":
                    for k, v in (("ep", 1), ("mi", -1), ("bs", -1)):
                        if op[k] != v and not (k == "mi" and op["ep"] == -1):
                            yield dict(case, ops=ops[:i] + [dict(op, **{k: v})] + ops[i + 1:])
            for k, v in (("est", "base"), ("container", "ndarray")):
                if case[k] != v:
                    yield dict(case, **{k: v})
            return
        if case["kind"] == "cbv":
            for k, lo in (("n", 1), ("ep", 1), ("mi", 1), ("bs", 1)):
                v = case[k]
                if v > lo:
                    for nv in sorted({lo, v // 2, v - 1}):
                        if lo <= nv < v:
                            yield dict(case, **{k: nv})
            for i, c in enumerate(case["cbs"]):
                yield dict(case, cbs=case["cbs"][:i] + case["cbs"][i + 1:], cb_as="list")
                for key in ("T", "N"):
                    if c[key]:
                        yield dict(case, cbs=case["cbs"][:i] + [dict(c, **{key: c[key][1:]})] + case["cbs"][i + 1:])
                if c["dflt"] != "False":
                    yield dict(case, cbs=case["cbs"][:i] + [dict(c, dflt="False")] + case["cbs"][i + 1:])
            if case["est"] != "base":
                yield dict(case, est="base")
            return
        if case["kind"] == "sched":
            for k, lo in (("n", 1), ("ep", 1), ("mi", 1), ("bs", 1)):
                v = case[k]
                if v > lo:
                    for nv in sorted({lo, v // 2, v - 1}):
                        if lo <= nv < v:
                            yield dict(case, **{k: nv})
            if case["cbs"]:
                for i in range(len(case["cbs"])):
                    yield dict(case, cbs=case["cbs"][:i] + case["cbs"][i + 1:], cb_as="list")
                for i, c in enumerate(case["cbs"]):
                    if c["stops"]:
                        yield dict(case, cbs=case["cbs"][:i] + [dict(c, stops=c["stops"][1:])] + case["cbs"][i + 1:])
            for k, v in (("est", "base"), ("style", "int"), ("container", "ndarray")):
                if case[k] != v:
                    yield dict(case, **{k: v})
        else:
            for k, v in (("pred", []), ("adv", []), ("opt", "SGD"), ("constraint", "demographic_parity"), ("alpha", "0"),
                         ("stops", []), ("ep", 1), ("container", "ndarray"), ("ystyle", "int"), ("sstyle", "int"), ("tie", False)):
                if case[k] != v:
                    yield dict(case, **{k: v})
            if case["mi"] > 1:
                yield dict(case, mi=case["mi"] - 1)
            if len(case["Xtest"]) > 1:
                yield dict(case, Xtest=case["Xtest"][:1])
                yield dict(case, Xtest=case["Xtest"][1:])
            if case["d"] > 1:
                yield dict(case, d=case["d"] - 1, X=[r[:-1] for r in case["X"]], Xtest=[r[:-1] for r in case["Xtest"]])

    # ------------------------------------------------------------------------------------------ implementation
    @staticmethod
    def _box(vals, container, name="v"):
        import numpy as np
        if container == "list":
            return list(vals)
        if container == "pandas":
            import pandas as pd
            return pd.Series(list(vals), index=[f"r{i}" for i in range(len(vals))], name=name)
        return np.array(list(vals))

    def _impl_sched(self, case):
        import numpy as np
        from fairlearn.adversarial import AdversarialFairnessClassifier, AdversarialFairnessRegressor
        from fairlearn.adversarial._adversarial_mitigation import _AdversarialFairness
        Eng = recording_engine()
        Eng.LOG = []
        n = case["n"]
        X = np.zeros((n, 2))
        X[:, 0] = np.arange(n)
        X[:, 1] = 0.5
        if case["est"] in ("regressor", "base"):
            y = [i + 0.5 for i in range(n)]
            cls = AdversarialFairnessRegressor if case["est"] == "regressor" else _AdversarialFairness
        else:
            y = _labels(case["style"], [i % 2 for i in range(n)])
            cls = AdversarialFairnessClassifier
        sf = [i + 0.25 for i in range(n)]
        calls = []

        def mk(idx, spec):
            stops = set(spec["stops"])

            def cb(est, step, **kw):
                calls.append([idx, int(step), int(est.n_iter_), sorted(kw.keys())])
                if step in stops:
                    return True
                return False if spec["neg"] == "False" else None
            return cb

        cbs = [mk(i, s) for i, s in enumerate(case["cbs"])]
        kw = {}
        if cbs:
            kw["callbacks"] = cbs[0] if case["cb_as"] == "callable" else cbs
        # `max_iter` is a constructor parameter of the base class only; the public subclasses do not forward it, so
        # there it can only be set as an attribute
        if case["est"] == "base":
            est = cls(backend=Eng, batch_size=case["bs"], epochs=case["ep"], max_iter=case["mi"], shuffle=False, **kw)
        else:
            est = cls(backend=Eng, batch_size=case["bs"], epochs=case["ep"], shuffle=False, **kw)
            est.max_iter = case["mi"]
        Xin = X if case["container"] != "pandas" else __import__("pandas").DataFrame(X, columns=["row", "c"])
        try:
            ret = est.fit(Xin, self._box(y, case["container"], "y"), sensitive_features=self._box(sf, case["container"], "sf"))
        except ValueError:
            return {"error": "ValueError", "steps_before_error": len(Eng.LOG)}
        slices, aligned = [], True
        for Xb, Yb, Ab in Eng.LOG:
            rows = [int(v) for v in np.asarray(Xb)[:, 0]]
            lo, hi = rows[0], rows[-1] + 1
            if rows != list(range(lo, hi)):
                aligned = False
            a = [float(v) - 0.25 for v in np.asarray(Ab)[:, 0]]
            if [int(v) for v in a] != rows:
                aligned = False
            if case["est"] in ("regressor", "base"):
                yy = [float(v) - 0.5 for v in np.asarray(Yb)[:, 0]]
                if [int(v) for v in yy] != rows:
                    aligned = False
            else:
                yy = [int(v) for v in np.asarray(Yb)[:, 0]]
                if n >= 2 and yy != [r % 2 for r in rows]:
                    aligned = False
            slices.append([lo, hi])
        return {"slices": slices, "aligned": aligned, "calls": calls, "n_iter": int(est.n_iter_), "ret_self": ret is est}

    def _impl_cbv(self, case):
        import numpy as np
        from fairlearn.adversarial import AdversarialFairnessClassifier, AdversarialFairnessRegressor
        from fairlearn.adversarial._adversarial_mitigation import _AdversarialFairness
        Eng = recording_engine()
        Eng.LOG = []
        n = case["n"]
        X = np.zeros((n, 2))
        X[:, 0] = np.arange(n)
        X[:, 1] = 0.5
        if case["est"] in ("regressor", "base"):
            y = [i + 0.5 for i in range(n)]
            cls = AdversarialFairnessRegressor if case["est"] == "regressor" else _AdversarialFairness
        else:
            y = [i % 2 for i in range(n)]
            cls = AdversarialFairnessClassifier
        sf = [i + 0.25 for i in range(n)]
        calls = []

        class Obj:          # an object without __bool__ / __len__: truthy
            pass
        NB = {"1": 1, "str": "stop", "np_true": np.True_, "list": [0], "2.5": 2.5, "obj": Obj()}
        DF = {"False": False, "None": None, "0": 0, "empty": "", "np_false": np.False_}

        def mk(idx, spec):
            t, nb = set(spec["T"]), set(spec["N"])

            def cb(est, step, **kw):
                calls.append([idx, int(step), int(est.n_iter_)])
                if step in nb:
                    return NB[spec["nb"]]
                if step in t:
                    return True
                return DF[spec["dflt"]]
            return cb

        cbs = [mk(i, c) for i, c in enumerate(case["cbs"])]
        kw = {}
        if cbs:
            kw["callbacks"] = cbs[0] if case["cb_as"] == "callable" else cbs
        if case["est"] == "base":
            est = cls(backend=Eng, batch_size=case["bs"], epochs=case["ep"], max_iter=case["mi"], shuffle=False, **kw)
        else:
            est = cls(backend=Eng, batch_size=case["bs"], epochs=case["ep"], shuffle=False, **kw)
            est.max_iter = case["mi"]
        exc = "-"
        try:
            est.fit(X, np.array(y), sensitive_features=np.array(sf))
        except Exception as e:  # noqa: BLE001  (the kind of the exception is the observation)
            exc = type(e).__name__
        slices = []
        for Xb, _Yb, _Ab in Eng.LOG:
            rows = [int(v) for v in np.asarray(Xb)[:, 0]]
            slices.append([rows[0], rows[-1] + 1])
        ni = getattr(est, "n_iter_", None)
        return {"slices": slices, "calls": calls, "n_iter": None if ni is None else int(ni), "exc": exc}

    def _real_estimator(self, case, torch):
        from fairlearn.adversarial import AdversarialFairnessClassifier, AdversarialFairnessRegressor
        cls = AdversarialFairnessRegressor if case["ykind"] == "continuous" else AdversarialFairnessClassifier
        lr = float(F(case["lr"]))
        kw = dict(backend="torch", constraints=case["constraint"], alpha=float(F(case["alpha"])),
                  batch_size=case["bs"], epochs=case["ep"], shuffle=False, random_state=case["seed"],
                  predictor_optimizer=case["opt"], adversary_optimizer=case["opt"], learning_rate=lr)
        if case["tie"]:
            ny = {"binary": 1, "continuous": 1}.get(case["ykind"], len(set(case["y"])))
            ns = 1 if case["skind"] == "binary" else len(set(case["sf"]))
            eo = case["constraint"] == "equalized_odds"
            pm = torch.nn.Sequential(torch.nn.Linear(case["d"], ny), *([torch.nn.Sigmoid()] if case["ykind"] == "binary" else []))
            am = torch.nn.Sequential(torch.nn.Linear(ny * (2 if eo else 1), ns), *([torch.nn.Sigmoid()] if case["skind"] == "binary" else []))
            with torch.no_grad():
                for p in list(pm.parameters()) + list(am.parameters()):
                    p.zero_()
            kw.update(predictor_model=pm, adversary_model=am, learning_rate=0,
                      predictor_optimizer=lambda m: torch.optim.SGD(m.parameters(), lr=0.0),
                      adversary_optimizer=lambda m: torch.optim.SGD(m.parameters(), lr=0.0))
        else:
            kw.update(predictor_model=list(case["pred"]), adversary_model=list(case["adv"]))
        est = cls(**kw)
        est.max_iter = case["mi"]     # not a constructor parameter of the public classes
        return est

    def _impl_real(self, case):
        import numpy as np
        import torch
        torch.set_num_threads(1)
        X = np.array([[float(F(v)) for v in r] for r in case["X"]], dtype=float)
        Xt = np.array([[float(F(v)) for v in r] for r in case["Xtest"]], dtype=float)
        if case["ykind"] == "continuous":
            yl = [float(F(v)) for v in case["y"]]
        else:
            yl = _labels(case["ystyle"], case["y"])
        sl = _labels(case["sstyle"], case["sf"])
        cont = case["container"]

        def box(vals, rows, name):
            sub = [vals[i] for i in rows]
            if cont == "pandas":
                import pandas as pd
                return pd.Series(sub, index=[f"r{i}" for i in rows], name=name)
            return np.array(sub)

        calls = []
        stops = set(case["stops"])

        def cb(est, step, **kw):
            calls.append(int(step))
            return step in stops

        rows_all = list(range(case["n"]))
        est = self._real_estimator(case, torch)
        if case["stops"]:
            est.set_params(callbacks=cb)
        try:
            est.fit(X, box(yl, rows_all, "y"), sensitive_features=box(sl, rows_all, "sf"))
        except RuntimeError:
            # torch's BCELoss refuses NaN inputs: only accepted as "training diverged" if the weights really are non-finite
            eng = getattr(est, "backendEngine_", None)
            if eng is not None and any(not bool(torch.isfinite(p).all()) for m in (eng.predictor_model, eng.adversary_model)
                                       for p in m.parameters()):
                return {"diverged": True}
            raise
        plan = oracle_schedule(case["n"], case["bs"], case["ep"], case["mi"], bool(case["stops"]), case["stops"])
        twin = self._real_estimator(case, torch)
        err = None
        try:
            for lo, hi, _k, _f in plan:
                rows = list(range(lo, hi))
                twin.partial_fit(X[lo:hi], box(yl, rows, "y"), sensitive_features=box(sl, rows, "sf"))
        except Exception as e:  # noqa: BLE001
            err = f"{type(e).__name__}: {str(e)[:80]}"
        out = {"n_iter": int(est.n_iter_), "calls": calls, "twin_error": err}
        if err is None:
            diffs, nparam, anynan = 0, 0, False
            maxrel = 0.0
            for who in ("predictor_model", "adversary_model"):
                for p, q in zip(getattr(est.backendEngine_, who).parameters(), getattr(twin.backendEngine_, who).parameters()):
                    a, b = p.detach().numpy(), q.detach().numpy()
                    nparam += a.size
                    if np.isnan(a).any() or np.isnan(b).any():
                        anynan = True
                    neq = ~((a == b) | (np.isnan(a) & np.isnan(b)))
                    diffs += int(neq.sum())
                    if neq.any():
                        maxrel = max(maxrel, float(np.nanmax(np.abs(a - b)[neq] / (np.abs(a)[neq] + 1e-30))))
            out.update(param_count=nparam, param_diffs=diffs, max_rel_diff=maxrel, nan_params=anynan)
        # predict vs raw predict
        Xall = np.vstack([X, Xt])
        Xin = Xall if cont != "pandas" else __import__("pandas").DataFrame(Xall)
        raw = est._raw_predict(Xin)      # same input object for both calls (memory layout decides the float32 kernel)
        pred = est.predict(Xin)
        rawl = [[("nan" if (math.isnan(float(v)) or math.isinf(float(v))) else proto.rat(float(v))) for v in r]
                for r in np.asarray(raw, dtype=float).reshape(len(Xall), -1)]
        pl = np.asarray(pred).tolist()
        out.update(raw=rawl, pred=pl, pred_ndim=int(np.ndim(pred)), classes=np.asarray(est.classes_).tolist()
                   if case["ykind"] != "continuous" else None)
        return out

    def _impl_life(self, case):
        import numpy as np
        from sklearn.exceptions import NotFittedError
        from fairlearn.adversarial import AdversarialFairnessClassifier, AdversarialFairnessRegressor
        from fairlearn.adversarial._adversarial_mitigation import _AdversarialFairness
        Eng = recording_engine()
        Eng.LOG, Eng.GEN = [], 0
        n = case["n"]
        X = np.zeros((n, 2))
        X[:, 0] = np.arange(n)
        X[:, 1] = 0.5
        if case["est"] in ("regressor", "base"):
            y = [i + 0.5 for i in range(n)]
            cls = AdversarialFairnessRegressor if case["est"] == "regressor" else _AdversarialFairness
        else:
            y = _labels("int", [i % 2 for i in range(n)])
            cls = AdversarialFairnessClassifier
        sf = [i + 0.25 for i in range(n)]
        est = cls(backend=Eng, shuffle=False)
        out = []

        def box(vals, lo, hi, name):
            if case["container"] == "pandas":
                import pandas as pd
                return pd.Series(vals[lo:hi], index=[f"r{i}" for i in range(lo, hi)], name=name)
            return np.array(vals[lo:hi])

        for op in case["ops"]:
            res = "ok"
            try:
                if op["op"] == "predict":
                    p = est.predict(X)
                    if len(p) != n:
                        res = "badshape"
                elif op["op"] == "pfit":
                    lo, hi = op["lo"], op["hi"]
                    kw = {"classes": np.unique(np.array(y))} if op["cg"] else {}
                    est.partial_fit(X[lo:hi], box(y, lo, hi, "y"), sensitive_features=box(sf, lo, hi, "sf"), **kw)
                else:
                    est.set_params(batch_size=op["bs"], epochs=op["ep"], warm_start=op["warm"])
                    est.max_iter = op["mi"]
                    est.fit(X, box(y, 0, n, "y"), sensitive_features=box(sf, 0, n, "sf"))
            except NotFittedError:
                res = "notfitted"
            except ValueError:
                res = "valueerror"
            except Exception as e:  # noqa: BLE001  (any other exception kind is a result to judge)
                res = type(e).__name__.lower()
            eng = getattr(est, "backendEngine_", None)
            ni = getattr(est, "n_iter_", None)
            out.append(f"{res}:{Eng.GEN}:{'x' if ni is None else int(ni)}:" + ("x" if eng is None else f"{eng.gen}/{len(eng.rows)}"))
        eng = getattr(est, "backendEngine_", None)
        return {"ops": out, "slices": None if eng is None else [list(r) for r in eng.rows]}

    def impl(self, case):
        if case["kind"] == "life":
            return self._impl_life(case)
        if case["kind"] == "cbv":
            return self._impl_cbv(case)
        return self._impl_sched(case) if case["kind"] == "sched" else self._impl_real(case)

    # ------------------------------------------------------------------------------------------ protocol
    @staticmethod
    def _stops(case):
        if case["kind"] == "sched":
            return sorted({k for c in case["cbs"] for k in c["stops"]})
        return sorted(set(case["stops"]))

    @staticmethod
    def _has_cb(case):
        return bool(case["cbs"]) if case["kind"] == "sched" else bool(case["stops"])

    @staticmethod
    def _life_tokens(case):
        t = []
        for op in case["ops"]:
            if op["op"] == "predict":
                t.append("Q")
            elif op["op"] == "pfit":
                t.append(f"P:{op['lo']}:{op['hi']}:{proto.b(op['cg'])}")
            else:
                t.append(f"F:{case['n']}:{op['bs']}:{op['ep']}:{op['mi']}:{proto.b(op['warm'])}")
        return " ".join(t)

    def lines(self, case, o):
        if case["kind"] == "life":
            return ["schedlife.run " + self._life_tokens(case)]
        if case["kind"] == "cbv":
            def tok(c):
                t = ",".join(str(k) for k in sorted(set(c["T"])))
                nb = ",".join(str(k) for k in sorted(set(c["N"])))
                return f"{t}|{nb}|{'b' if c['dflt'] == 'False' else 'o'}"
            return [f"schedsrc.fitv {case['n']} {case['bs']} {case['ep']} {case['mi']} "
                    + (";".join(tok(c) for c in case["cbs"]) if case["cbs"] else "x")]
        args = f"{case['n']} {case['bs']} {case['ep']} {case['mi']} {proto.b(self._has_cb(case))} {proto.lst(self._stops(case))}"
        if case["kind"] == "sched":
            cbtok = ";".join(proto.lst(sorted(set(c["stops"]))) for c in case["cbs"]) if case["cbs"] else "x"
        else:
            cbtok = proto.lst(sorted(set(case["stops"]))) if case["stops"] else "x"
        ls = [f"sched.run {args}", f"sched.loop {args}",
              f"schedsrc.fit {case['n']} {case['bs']} {case['ep']} {case['mi']} {cbtok}"]
        if case["kind"] == "real" and "raw" in o and case["ykind"] != "continuous":
            if all(v != "nan" for r in o["raw"] for v in r):
                k = len(set(case["y"]))
                cls = proto.lst([100 + i for i in range(k)])
                if k == 2:
                    ls.append(f"sched.predbin {cls} 1/2 {','.join(r[0] for r in o['raw'])}")
                    ls.append(f"schedsrc.predbin {cls} d {','.join(r[0] for r in o['raw'])}")
                else:
                    ls.append(f"sched.predmulti {cls} {';'.join(','.join(r) for r in o['raw'])}")
                    ls.append(f"schedsrc.predmulti {cls} {';'.join(','.join(r) for r in o['raw'])}")
        return ls

    # ------------------------------------------------------------------------------------------ judging
    def _judge_cbv(self, case, o, mo):
        probs = []
        want = oracle_cbv(case["n"], case["bs"], case["ep"], case["mi"], [(set(c["T"]), set(c["N"])) for c in case["cbs"]])

        def fmt(ni, sl, calls, exc):
            return (f"{ni} " + (",".join(f"{lo}:{hi}" for lo, hi in sl) if sl else "-") + " "
                    + (",".join(f"{i}:{k}" for i, k in calls) if calls else "-") + " " + exc)
        wtxt = want if isinstance(want, str) else fmt(*want)
        thm = "C17.src_nonbool_callback_rejected" if case["cbs"] else "C17.src_no_callbacks_no_calls"
        if mo is not None and mo[0] != wtxt:
            probs.append(model_problem(f"lifted guard / result check: interpreter says {mo[0][:160]}, documented {wtxt[:160]}"))
        if isinstance(want, str):
            if o["exc"] != "ValueError" or o["slices"] or o["calls"]:
                if want == "err":
                    probs.append(Problem("property", f"epochs=-1 and max_iter=-1 must be rejected before any step, got {str(o)[:100]}",
                                         "C17.both_unset_rejected"))
                else:
                    probs.append(Problem("property", f"batch_size={case['bs']}, epochs={case['ep']}, max_iter={case['mi']}: a value that "
                                         f"is neither positive nor -1 must be rejected with ValueError before any step, got {str(o)[:100]}",
                                         "C17.src_nonpositive_params_rejected"))
            return probs
        itxt = fmt(o["n_iter"], [tuple(x) for x in o["slices"]], [(c[0], c[1]) for c in o["calls"]], o["exc"])
        if itxt != wtxt:
            what = ("callbacks returning non-bool values" if case["cbs"] else "no callbacks")
            probs.append(Problem("property", f"{what}: fit made (n_iter_, slices, (callback, step) calls, exception) = {itxt[:200]}; "
                                 f"documented: {wtxt[:200]}", thm))
        if any(c[1] != c[2] for c in o["calls"]):
            probs.append(Problem("property", "a callback was called with step != n_iter_", "C17.callbacks"))
        if mo is not None and mo[0] not in ("bad-op",) and itxt != mo[0]:
            probs.append(Problem("correspondence", f"fit recorded {itxt[:160]}, the interpreter of the lifted source (guard, result "
                                 f"check) says {mo[0][:160]}", thm))
        return probs

    @staticmethod
    def _parse_run(tok):
        if tok == "err":
            return "err"
        cnt, steps = tok.split(" ")
        out = []
        if steps != "-":
            for s in steps.split(","):
                lo, hi, k, cb = s.split(":")
                out.append((int(lo), int(hi), int(k), cb == "1"))
        assert int(cnt) == len(out)
        return out

    def judge(self, case, o, mo):
        if "crash" in o:
            return [Problem("correspondence", f"implementation crashed: {o}", "impl-total")]
        if o.get("diverged"):
            return []      # generated learning rate made training overflow to NaN: nothing to compare (tagged)
        if case["kind"] == "life":
            return self._judge_life(case, o, mo)
        if case["kind"] == "cbv":
            return self._judge_cbv(case, o, mo)
        probs = []
        has_cb, stops = self._has_cb(case), self._stops(case)
        want = oracle_schedule(case["n"], case["bs"], case["ep"], case["mi"], has_cb, stops)
        # ---- model vs oracle ----
        if mo is not None:
            try:
                m_run = self._parse_run(mo[0])
            except Exception:  # noqa: BLE001
                m_run = "unparsable:" + mo[0][:60]
            if m_run != want:
                probs.append(Problem("harness", f"model schedule {str(m_run)[:120]} vs oracle {str(want)[:120]}"))
            if want == "err":
                if mo[1] != "err":
                    probs.append(Problem("harness", f"model loop {mo[1][:60]} vs oracle err"))
            else:
                wl = f"{len(want)} " + (",".join(f"{lo}:{hi}" for lo, hi, _, _ in want) if want else "-")
                if mo[1] != wl:
                    probs.append(Problem("harness", f"nested-loop model {mo[1][:120]} vs oracle {wl[:120]}"))
            # the interpreter of the configuration LIFTED from the source
            ncb_m = len(case["cbs"]) if case["kind"] == "sched" else (1 if case["stops"] else 0)
            if want == "err":
                wsrc = "err"
            else:
                wcalls = [(i, k) for (_, _, k, fired) in want if fired for i in range(ncb_m)]
                wsrc = (f"{len(want)} " + (",".join(f"{lo}:{hi}" for lo, hi, _, _ in want) if want else "-") + " "
                        + (",".join(f"{i}:{k}" for i, k in wcalls) if wcalls else "-"))
            if mo[2] != wsrc:
                probs.append(model_problem(f"lifted-source schedule {mo[2][:160]} vs documented {wsrc[:160]}"))
        if case["kind"] == "sched":
            if want == "err":
                if o.get("error") != "ValueError":
                    probs.append(Problem("property", f"epochs=-1 and max_iter=-1 must be rejected, got {str(o)[:100]}", "C17.both_unset_rejected"))
                elif o.get("steps_before_error"):
                    probs.append(Problem("correspondence", "training steps were made before the rejection", "C17.both_unset_rejected"))
                return probs
            if "error" in o:
                probs.append(Problem("property", f"valid configuration raised {o['error']}", "C17.accepts"))
                return probs
            got = [tuple(s) for s in o["slices"]]
            ws = [(lo, hi) for lo, hi, _, _ in want]
            if len(got) != len(ws):
                probs.append(Problem("property", f"{len(got)} training steps, the documented schedule has {len(ws)} "
                                     f"(n={case['n']}, batch_size={case['bs']}, epochs={case['ep']}, max_iter={case['mi']}, "
                                     f"first stop={min(stops) if (stops and has_cb) else None})", "C17.steps_count"))
            elif got != ws:
                i = next(j for j in range(len(ws)) if got[j] != ws[j])
                probs.append(Problem("property", f"step {i + 1} trained on rows {got[i]}, the schedule says {ws[i]}", "C17.slices"))
            if not o["aligned"]:
                probs.append(Problem("property", "a train_step received non-consecutive rows or X / y / sensitive rows that do not belong together",
                                     "C17.slices"))
            if o["n_iter"] != len(ws):
                probs.append(Problem("property", f"n_iter_ = {o['n_iter']}, completed steps per schedule = {len(ws)}", "C17.n_iter"))
            if not o["ret_self"]:
                probs.append(Problem("correspondence", "fit did not return self", "C17.returns-self"))
            # callbacks: every callback once per fired step, in order, numbered 1,2,...
            ncb = len(case["cbs"])
            exp_calls = [[i, k] for (_, _, k, fired) in want if fired for i in range(ncb)]
            got_calls = [[c[0], c[1]] for c in o["calls"]]
            if got_calls != exp_calls:
                probs.append(Problem("property", f"callback invocations (callback, step) = {got_calls[:12]}..., documented: {exp_calls[:12]}... "
                                     f"(total {len(got_calls)} vs {len(exp_calls)})", "C17.callbacks"))
            if any(c[1] != c[2] for c in o["calls"]):
                probs.append(Problem("property", "a callback was called with step != n_iter_", "C17.callbacks"))
            if mo is not None and mo[2] not in ("err", "bad-op"):
                isrc = (f"{o['n_iter']} " + (",".join(f"{lo}:{hi}" for lo, hi in got) if got else "-") + " "
                        + (",".join(f"{c[0]}:{c[1]}" for c in o["calls"]) if o["calls"] else "-"))
                if isrc != mo[2]:
                    probs.append(Problem("correspondence", f"fit recorded {isrc[:160]}, the interpreter of the lifted source says {mo[2][:160]}",
                                         "C17.src_fit_eq_fold_partial_fit"))
            return probs
        # ---- real engine ----
        steps = [k for _, _, k, _ in want]
        if o["n_iter"] != len(steps):
            probs.append(Problem("property", f"n_iter_ = {o['n_iter']}, documented schedule has {len(steps)} steps", "C17.steps_count"))
        exp_calls = [k for (_, _, k, fired) in want if fired]
        if o["calls"] != exp_calls:
            probs.append(Problem("property", f"callback steps {o['calls']} vs documented {exp_calls}", "C17.callbacks"))
        if mo is not None and mo[2] not in ("err", "bad-op"):
            m_n, _m_sl, m_calls = mo[2].split(" ")
            i_calls = ",".join(f"0:{k}" for k in o["calls"]) if o["calls"] else "-"
            if str(o["n_iter"]) != m_n or i_calls != m_calls:
                probs.append(Problem("correspondence", f"fit made {o['n_iter']} steps with callback calls {i_calls[:80]}, the interpreter "
                                     f"of the lifted source says {m_n} steps, calls {m_calls[:80]}", "C17.src_fit_eq_fold_partial_fit"))
        if o["twin_error"]:
            probs.append(Problem("correspondence", f"partial_fit twin failed: {o['twin_error']}", "C17.twin-runs"))
        elif o["param_diffs"]:
            probs.append(Problem("property", f"model after fit differs from the model after the same {len(steps)} slices through partial_fit "
                                 f"in {o['param_diffs']} of {o['param_count']} parameters (max relative difference {o['max_rel_diff']:.3e})",
                                 "C17.fit_eq_partial_fit"))
        # predict
        raw, pred = o["raw"], o["pred"]
        if any(v == "nan" for r in raw for v in r):
            return probs   # non-finite outputs: decision rule not judged (tagged)
        if case["ykind"] == "continuous":
            flat = [float(F(r[0])) for r in raw]
            # review R2: measured max |predict - raw| on the unchanged tree = 0.0 exactly (3326 values, VERIF_SEED 0..2): the rule
            # is the identity on the same float32 forward pass, so the comparison is bit-exact like the twin comparison
            # (was 1e-6 relative)
            if o["pred_ndim"] != 1 or len(pred) != len(flat) or any(abs(a - b) > 0.0 for a, b in zip(pred, flat)):
                probs.append(Problem("property", f"regression predict {str(pred)[:80]} is not the raw output {str(flat)[:80]}", "C17.predict_regression"))
            return probs
        k = len(set(case["y"]))
        labels = _labels(case["ystyle"], list(range(k)))
        labels_sorted = sorted(labels)
        if k == 2:
            idx = [1 if F(r[0]) >= F(1, 2) else 0 for r in raw]
        else:
            idx = []
            for r in raw:
                vals = [F(v) for v in r]
                idx.append(vals.index(max(vals)))
        wantp = [labels_sorted[i] for i in idx]
        if any(p not in labels for p in pred):
            probs.append(Problem("property", f"predict returned {[p for p in pred if p not in labels][:3]} outside the training label set {labels}",
                                 "C17.predict_in_classes"))
        elif list(pred) != wantp:
            j = next(i for i in range(len(wantp)) if pred[i] != wantp[i])
            probs.append(Problem("property", f"row {j}: raw output {[str(F(v)) for v in raw[j]]} -> predict {pred[j]!r}, decision rule gives {wantp[j]!r}",
                                 "C17.predict_rule"))
        if mo is not None and len(mo) >= 5:
            ml = [labels_sorted[int(t) - 100] for t in mo[3].split(",")] if mo[3] not in ("bad-op", "-") else mo[3]
            if ml != wantp:
                probs.append(Problem("harness", f"model predict {str(ml)[:80]} vs oracle {str(wantp)[:80]}"))
            ms = [labels_sorted[int(t) - 100] for t in mo[4].split(",")] if mo[4] not in ("bad-op", "-", "unmodelled") else mo[4]
            if ms != wantp:
                probs.append(model_problem(f"decision rule lifted from the source gives {str(ms)[:80]}, documented rule {str(wantp)[:80]}"))
            if ms != list(pred) and isinstance(ms, list):
                probs.append(Problem("correspondence", f"predict {str(list(pred))[:80]} vs lifted decision rule on the raw outputs {str(ms)[:80]}",
                                     "C17.src_predict"))
        return probs

    def _judge_life(self, case, o, mo):
        probs = []
        want_ops, want_sl = oracle_life(case["n"], case["ops"])
        fmt = lambda sl: "x" if sl is None else ("-" if not sl else ",".join(f"{a}:{b}" for a, b in sl))  # noqa: E731
        if mo is not None:
            wm = " ".join(want_ops) + " " + fmt(want_sl)
            if mo[0] != wm:
                probs.append(model_problem(f"life-cycle model {mo[0][:160]} vs documented {wm[:160]}"))
        names = [op["op"] + ("(warm)" if op.get("warm") else "") for op in case["ops"]]
        for i, (got, want) in enumerate(zip(o["ops"], want_ops)):
            if got != want:
                g, w = got.split(":"), want.split(":")
                if g[0] != w[0]:
                    what, rel = f"returned/raised `{g[0]}`, documented `{w[0]}`", "C17.predict_before_fit_rejected" if w[0] == "notfitted" else "C17.accepts"
                elif g[1] != w[1] or g[3].split("/")[0] != w[3].split("/")[0]:
                    what = f"{g[1]} model initialisations so far (current models: no. {g[3].split('/')[0]}), documented {w[1]} (no. {w[3].split('/')[0]})"
                    rel = "C17.fit_warm_start_continues" if case["ops"][i].get("warm") else ("C17.fit_cold_start" if case["ops"][i]["op"] == "fit" else "C17.partial_fit_later_calls_continue")
                elif g[2] != w[2]:
                    what, rel = f"n_iter_ = {g[2]}, documented {w[2]}", "C17.n_iter"
                else:
                    what, rel = f"the current models have seen {g[3].split('/')[1]} training steps, documented {w[3].split('/')[1]}", "C17.fit_eq_partial_fit"
                probs.append(Problem("property", f"call {i + 1} of {names}: {what}", rel))
                break
        else:
            if o["slices"] is not None and want_sl is not None and [tuple(s) for s in o["slices"]] != want_sl:
                probs.append(Problem("property", f"after {names} the current models were trained on rows {o['slices'][:8]}, documented {want_sl[:8]}",
                                     "C17.fit_eq_partial_fit"))
        if mo is not None and not probs:
            im = " ".join(o["ops"]) + " " + fmt(None if o["slices"] is None else [tuple(s) for s in o["slices"]])
            if im != mo[0]:
                probs.append(Problem("correspondence", f"observed {im[:160]} vs life-cycle model {mo[0][:160]}", "C17.lifted_lifecycle"))
        return probs

    def signature(self, case, o):
        import json
        if case["kind"] == "life":
            ops = case["ops"]
            tags = ["kind=life", f"life_ops={len(ops)}", f"est={case['est']}"]
            seq = [op["op"] + ("_warm" if op.get("warm") else "") for op in ops]
            for a, b in zip(seq, seq[1:]):
                tags.append(f"life:{a}->{b}")
            if seq and seq[0] == "predict":
                tags.append("life:predict_first")
            return json.dumps(case, sort_keys=True), len(ops) >= 2, tags
        if case["kind"] == "cbv":
            w = oracle_cbv(case["n"], case["bs"], case["ep"], case["mi"], [(set(c["T"]), set(c["N"])) for c in case["cbs"]])
            tags = ["kind=cbv", f"callbacks={len(case['cbs'])}", f"est={case['est']}",
                    "outcome=" + (w if isinstance(w, str) else "RuntimeError" if w[3] != "-" else "completed")]
            if not isinstance(w, str) and w[3] != "-":
                tags.append("nonbool=" + next(c["nb"] for c in case["cbs"] if w[0] in c["N"]))
            tags += sorted({"falsy=" + c["dflt"] for c in case["cbs"]})
            return json.dumps(case, sort_keys=True), (not isinstance(w, str) and w[0] >= 2), tags
        tags = [f"kind={case['kind']}"]
        want = oracle_schedule(case["n"], case["bs"], case["ep"], case["mi"], self._has_cb(case), self._stops(case))
        nsteps = 0 if want == "err" else len(want)
        b = case["n"] if case["bs"] == -1 else case["bs"]
        tags += ["batch_size=-1" if case["bs"] == -1 else ("batch>n" if b > case["n"] else "batch|n" if case["n"] % b == 0 else "batch∤n"),
                 "epochs=-1" if case["ep"] == -1 else "epochs>0", "max_iter=-1" if case["mi"] == -1 else "max_iter>0",
                 "steps=" + ("err" if want == "err" else "1" if nsteps == 1 else "2-9" if nsteps < 10 else "10+")]
        if want != "err":
            total = (ceil_div(case["mi"], ceil_div(case["n"], b)) if case["ep"] == -1 else case["ep"]) * ceil_div(case["n"], b)
            if case["mi"] != -1 and nsteps == case["mi"]:
                tags.append("ended_by=max_iter")
            elif nsteps < total:
                tags.append("ended_by=callback")
            else:
                tags.append("ended_by=epochs")
        if case["kind"] == "sched":
            tags += [f"callbacks={len(case['cbs'])}", f"est={case['est']}", f"container={case['container']}"]
        else:
            tags += [f"y={case['ykind']}", f"ylabels={case['ystyle']}", f"opt={case['opt']}", "tie" if case["tie"] else "trained"]
            if o.get("diverged"):
                tags.append("training_diverged_not_judged")
            if o.get("nan_params"):
                tags.append("nan_parameters")
            if "raw" in o and any(v == "nan" for r in o["raw"] for v in r):
                tags.append("non_finite_outputs_not_judged")
            if "raw" in o and case["ykind"] == "binary" and any(r[0] == "1/2" for r in o["raw"]):
                tags.append("output_exactly_0.5")
        return json.dumps(case, sort_keys=True), (nsteps >= 2 or case["kind"] == "real"), tags
