"""C02 — MetricFrame aggregates are the documented functions of by_group and overall."""
import itertools
import math
from fractions import Fraction as F

import numpy as np
import pandas as pd

from .. import proto
from ..core import Check, Problem, register
from . import mfcommon as mc
from . import c01 as c01mod

TOL = 1e-12
AGG_KEYS = ["min/raise", "min/coerce", "max/raise", "max/coerce",
            "difference/between_groups/raise", "difference/between_groups/coerce",
            "difference/to_overall/raise", "difference/to_overall/coerce",
            "ratio/between_groups/raise", "ratio/between_groups/coerce",
            "ratio/to_overall/raise", "ratio/to_overall/coerce"]
# with a non-scalar column in the frame only the well-defined coerce variants are compared with the model
NS_COMPARED = ("min/coerce", "max/coerce", "difference/between_groups/coerce", "ratio/between_groups/coerce")
# accessor calls that LEAVE ARGUMENTS OUT (order of the second half of the driver op `aggc.eval`) -> the explicit call the
# docstrings of MetricFrame.group_min / group_max / difference / ratio document them to be equal to
DEF_KEYS = ["min/-", "max/-",
            "difference/-/-", "difference/between_groups/-", "difference/to_overall/-", "difference/-/raise", "difference/-/coerce",
            "ratio/-/-", "ratio/between_groups/-", "ratio/to_overall/-", "ratio/-/raise", "ratio/-/coerce"]


def documented_default(key):
    parts = key.split("/")
    if parts[0] in ("min", "max"):
        return f"{parts[0]}/raise"
    return "/".join([parts[0], "between_groups" if parts[1] == "-" else parts[1], "coerce" if parts[2] == "-" else parts[2]])


# errors='raise' is documented to raise on "invalid parsing": the aggregates that reduce by_group with errors='raise'
RAISE_KEYS = ("min/raise", "max/raise", "difference/between_groups/raise", "ratio/between_groups/raise")
# sha256 of lean/FairModel/Generated/PopulateSrc.lean as lifted from the pinned tree (rule: see c01.PINNED_FRAMESRC_SHA256)
PINNED_POPULATESRC_SHA256 = "20c4fc960e2fa1936101981c8ceeafe5c27fc2ed510d745715c0dd0eee3abcb5"


def populate_changed():
    return c01mod._generated_changed("PopulateSrc.lean", PINNED_POPULATESRC_SHA256) or c01mod.framesrc_changed()


WMEAN_TAGS = ("selrate", "accuracy", "meanpred", "meanerr")   # sample-weighted means of a per-row quantity
TABLE_VALUES = ["0", "1/2", "1", "-1", "nan", "2", "-3", "3/4", "-1/2", "1/4", "5"]


# ------------------------------------------------------------------ exact extended arithmetic (oracle side)
def isnan(x):
    return x == "nan"


def x_of(tokv):
    """impl token (float or string token) -> Fraction | 'nan' | 'inf' | '-inf' | 'ns'"""
    if isinstance(tokv, str):
        return tokv
    return F(tokv)


def x_lt(a, b):
    if isnan(a) or isnan(b):
        return False
    if a == b:
        return False
    if a == "-inf" or b == "inf":
        return True
    if a == "inf" or b == "-inf":
        return False
    return a < b


def x_neg(a):
    return {"nan": "nan", "inf": "-inf", "-inf": "inf"}.get(a, None) if isinstance(a, str) else -a


def x_sub(a, b):
    if isnan(a) or isnan(b):
        return "nan"
    if isinstance(a, str) or isinstance(b, str):
        if isinstance(a, str) and isinstance(b, str):
            return "nan" if a == b else a
        return a if isinstance(a, str) else x_neg(b)
    return a - b


def x_abs(a):
    if isinstance(a, str):
        return "nan" if isnan(a) else "inf"
    return abs(a)


def x_div(a, b):
    if isnan(a) or isnan(b):
        return "nan"
    if isinstance(a, str) and isinstance(b, str):
        return "nan"
    if isinstance(b, str):
        return F(0)
    if isinstance(a, str):
        return a if b >= 0 else x_neg(a)
    if b == 0:
        return "nan" if a == 0 else ("inf" if a > 0 else "-inf")
    return a / b


def x_min(vals):
    vs = [v for v in vals if not isnan(v)]
    if not vs:
        return "nan"
    m = vs[0]
    for v in vs[1:]:
        if x_lt(v, m):
            m = v
    return m


def x_max(vals):
    vs = [v for v in vals if not isnan(v)]
    if not vs:
        return "nan"
    m = vs[0]
    for v in vs[1:]:
        if x_lt(m, v):
            m = v
    return m


def x_float(a):
    return {"nan": math.nan, "inf": math.inf, "-inf": -math.inf}[a] if isinstance(a, str) else float(a)


def x_tok(a):
    return a if isinstance(a, str) else proto.rat(a)


def tab_metric(y_true, y_pred, gid):
    """table look-up metric: the value of a group is its y_pred, the value of a whole stratum its y_true"""
    if len(set(np.asarray(gid).tolist())) == 1:
        return float(y_pred[0])
    return float(y_true[0])


NS_CODE = 777.0      # table entry that makes the look-up metric return an array (a non-scalar cell)


def frame_metric(y_true, y_pred, gid, gv, ov):
    """look-up metric of one column of a multi-metric frame: a single group -> its `gv`, a whole stratum -> its `ov`"""
    v = float(gv[0]) if len(set(np.asarray(gid).tolist())) == 1 else float(ov[0])
    if v == NS_CODE:
        return np.array([1.0, 2.0])
    return v


def documented(vs, o):
    """the documented aggregates of one stratum: vs = group values (NaN = empty group), o = overall"""
    mn, mx = x_min(vs), x_max(vs)
    live = [v for v in vs if not isnan(v)]
    d_be = x_sub(mx, mn)
    d_ov = x_max([x_abs(x_sub(v, o)) for v in live])
    r_be = x_div(mn, mx)
    rs = [x_div(v, o) for v in live]
    r_ov = x_min([x_min([r, x_div(F(1), r)]) for r in rs])
    # what the implementation is known to do instead for negative quotients (finding F8b): r is kept when r <= 1
    r_ov_kept = x_min([(x_div(F(1), r) if x_lt(F(1), r) else r) for r in rs])
    return {"min": mn, "max": mx, "difference/between_groups": d_be, "difference/to_overall": d_ov,
            "ratio/between_groups": r_be, "ratio/to_overall": r_ov, "_r_ov_kept": r_ov_kept, "_rs": rs}


@register
class CHECK(Check):
    pid = "C02"
    technique = ("Lean 4 theorems over a model of DisaggregatedResult.apply_grouping/difference/ratio on extended rationals "
                 "(NaN, +-inf) whose grouping functions and ratio_sub_one are lifted from the source + compiled-driver "
                 "correspondence with MetricFrame.group_min/group_max/difference/ratio; the BODIES of apply_grouping/difference/"
                 "ratio are symbolically executed by lifters/aggregate_gen.py into Generated/AggregateGen.lean (compositions of "
                 "the pandas-level primitives of Model/AggregatePrim.lean) and proved equal to the model; multi-metric frames "
                 "(Model/AggregateFrame.lean, row-major DataFrames) are proved column-wise equal to the single-metric model; "
                 "the RESULT CACHE of MetricFrame (_populate_results / _group: which (method, errors) each slot is computed with, the "
                 "no_control_levels flag) and the defaults / cache path of group_min, group_max, difference, ratio are symbolically "
                 "executed by lifters/populate.py into Generated/PopulateSrc.lean, interpreted by Model/AggregateCache.lean together "
                 "with the lifted _extract_result (driver op aggc.eval) and proved equal to the model (src_populate_eq_model, "
                 "src_group_min/group_max/difference/ratio_eq_model, src_cache_explicit_calls, src_cache_default_calls, "
                 "src_extract_documented)")
    level_text = ("Theorems (all tables, any number of strata/groups, NaN cells): group_min/max are attained lower/upper bounds "
                  "of the non-NaN groups; difference(between)=max-min; difference(to_overall)=max|v-o|; ratio(between)=min/max "
                  "(IEEE division); ratio(to_overall)=min ratio_sub_one(v/o) with ratio_sub_one r = min(r,1/r) for r>=0; "
                  "raise=coerce on scalar tables; difference>=0; ratio(to_overall)<=1 always; ratio(between)<=1 unless all "
                  "group values are negative (PROVED counter-witness: finding F8) ; ratio>=0 on non-negative tables; "
                  "between<=2*to_overall; to_overall<=between whenever overall lies between group min and max, and the "
                  "weighted-mean metrics' overall value does (partition lemma). Tie: real MetricFrame aggregates vs compiled "
                  "Lean model on the implementation's own by_group/overall tables; independent Fraction oracle. "
                  "Added: applyGroupingGen/differenceGen/ratioGen (lifted method bodies) = model for all tables; every aggregate "
                  "of a multi-column frame = the single-metric aggregate of each column (any number of columns/strata; "
                  "errors='raise' fails for every column iff a by_group cell is non-scalar; to_overall difference fails iff an "
                  "overall cell is non-scalar; to_overall ratio iff any cell is); difference=0 iff all non-NaN groups equal "
                  "(resp. equal the overall); ratio(between)=1 iff all equal and non-zero; single non-empty group; "
                  "ratio(to_overall)>=ratio(between) for non-negative weighted-mean metrics (false without 'overall between the "
                  "extremes': proved witness). Review R1: results on extended values (ratio(to_overall) is NaN, -inf or <= 1 for every "
                  "table; ratio(between_groups) on finite tables is NaN / -inf / min/max, never +inf; difference is NaN or >= 0); the "
                  "side conditions FiniteCells / hasNonscalar=false are PROVED for the frame of any metric that is finite-or-NaN on "
                  "every slice (ofFrame_finite); weighted-mean clause for NON-NEGATIVE weights without side conditions "
                  "(overall_le_between_of_weighted_mean_data; zero-weight groups are NaN cells and skipped, replayed on fairlearn).")
    design_ref = "DESIGN.md section 4, C02"
    quick_cases = 1100
    thorough_cases = 20000
    quick_budget_s = 90
    thorough_budget_s = 900
    workers_thorough = 4
    rule = ("two streams: (a) datasets as in C01 (1..40 rows, 1..3 sensitive x 0..2 control features, metric pool incl. the "
            "signed mean error which is negative/zero, bare or dict, strictly POSITIVE integer/dyadic sample weights or none) ; (b) arbitrary by_group/overall TABLES pushed "
            "through the public MetricFrame API with a look-up metric: values from {0,1/2,1,-1,nan,2,-3,3/4,-1/2,1/4,5}, "
            "1..4 groups x 1..3 strata, 1..2 sensitive features (so empty intersections), all-equal groups, zero/negative/NaN "
            "overall. For every metric column all 12 aggregates (min,max x raise/coerce; difference,ratio x between_groups/"
            "to_overall x raise/coerce) are read. distinct = distinct (by_group, overall) tables; non-trivial = >= 2 groups. "
            "(c) MULTI-METRIC frames given cell by cell through the public API (1..3 metric columns x 0..2 control features x "
            "1..4 groups per stratum, NaN cells, all-NaN strata, 27% with non-scalar cells in by_group and/or overall of one "
            "column): the whole frame goes through the driver op aggf.eval and all 12 aggregates are compared column by "
            "column, including which calls raise. "
            "On every case the four accessors are ALSO called with errors= and/or method= left out (12 more calls) and must equal "
            "the call with the documented default (C02.default_args); on frames whose non-scalar by_group cells have to be compared "
            "errors='raise' must raise (C02.raise_raises_on_nonscalar). "
            "thorough: ALL tables over {0,1/2,1,-1,nan} with <= 4 groups x <= 2 strata and overall in {0,1/2,1,-1}")
    explanation = ("oracle = the documented formulas evaluated exactly (Fractions, IEEE rules for x/0) on the implementation's own "
                   "by_group/overall; tolerance 1e-12 * max(1,|exact|) (measured max deviation of the implementation from the exact value on the clean tree: "
                   "1.2e-16 relative over 23590 comparisons, seeds 0-2); -0.0 is identified with 0.0. Known findings on the unchanged "
                   "tree: F8 (between_groups ratio > 1 when every group value of a stratum is negative) and F8b (to_overall "
                   "ratio keeps a negative quotient r in (-1,0) instead of min(r,1/r)=1/r).")
    trusted = ("pandas skipna min/max, groupby(level=), index alignment of (by_group - overall) and unstack are modelled by "
               "per-stratum NaN-skipping folds (Aggregate.vals/strata/overallAt), checked by the correspondence only",
               "float tables are passed to the Lean model as the exact rationals of the float64 values",
               "pandas DataFrame semantics assumed by Model/AggregateFrame.lean: element-wise ops row by row, reductions column by "
               "column, alignment on the control levels, an exception in one column aborts the call; object-dtype behaviour "
               "(when a reduction over non-scalar cells raises) is an observed rule, compared only on frames where every "
               "non-scalar by_group cell shares its (stratum, column) with another non-NaN cell and every stratum has >= 2 rows",
               "lifters/aggregate_gen.py: symbolic execution of the three method bodies into the primitives of Model/AggregatePrim.lean",
               "lifters/populate.py: symbolic execution of _populate_results / _group and of the four accessors; pinned (refused "
               "otherwise), not modelled: every cache store sits in try/except Exception that stores the exception under the same "
               "path, _none_to_nan (identity on the modelled values) wraps the difference / ratio results, the accessors re-raise a "
               "stored exception and return anything else unchanged")
    assumptions = ("metric values are finite or NaN (no +-inf cells, no -0.0)", "sample weights are positive")

    def __init__(self):
        self.c01 = c01mod.CHECK()

    # ---------------------------------------------------------------- generation
    def _table_case(self, rng):
        nsf = rng.choice([1, 1, 2])
        ncf = rng.choice([0, 0, 1, 1, 2])
        strata = [()]
        if ncf:
            strata = sorted(set(tuple(rng.choice("kmq") for _ in range(ncf)) for _ in range(rng.choice([1, 2, 3]))))
        mode = rng.choice(["any", "any", "neg", "nonneg", "equal", "zero"])
        pool = {"any": TABLE_VALUES, "neg": ["-1", "-3", "-1/2", "-2", "nan"], "nonneg": ["0", "1/2", "1", "2", "3/4", "nan", "1/4"],
                "equal": [rng.choice(TABLE_VALUES)], "zero": ["0", "0", "1", "-1", "nan"]}[mode]
        groups = []
        for c in strata:
            ng = rng.choice([1, 2, 2, 3, 4])
            keys = set()
            while len(keys) < ng:
                keys.add(tuple(rng.choice("abcd") for _ in range(nsf)))
            ov = rng.choice(pool + ["0", "1", "-1", "nan"]) if mode != "equal" else pool[0]
            for k in sorted(keys):
                groups.append({"cf": list(c), "sf": list(k), "val": rng.choice(pool), "oval": ov, "rows": rng.choice([1, 1, 2])})
        return {"kind": "table", "ncf": ncf, "nsf": nsf, "groups": groups, "bare": rng.random() < 0.5,
                "extra_ns": rng.random() < 0.08, "mode": mode}

    def _frame_case(self, rng):
        """a MULTI-METRIC frame (1..3 metric columns x 0..2 control features) given cell by cell: NaN cells,
        all-NaN strata, and (20%) non-scalar cells in by_group and/or overall of one column"""
        nsf = rng.choice([1, 1, 2])
        ncf = rng.choice([0, 0, 1, 1, 2])
        ncols = rng.choice([1, 2, 2, 3, 3])
        strata = [()]
        if ncf:
            strata = sorted(set(tuple(rng.choice("kmq") for _ in range(ncf)) for _ in range(rng.choice([1, 2, 3]))))
        ns_mode = rng.choice(["none"] * 8 + ["by", "ov", "both"])
        ns_col = rng.randrange(ncols)
        pools = [rng.choice([TABLE_VALUES, ["0", "1/2", "1", "2", "3/4", "nan", "1/4"], ["-1", "-3", "-1/2", "-2", "nan"],
                             ["0", "0", "1", "-1", "nan"], [rng.choice(TABLE_VALUES)]]) for _ in range(ncols)]
        groups = []
        for c in strata:
            ng = rng.choice([1, 2, 2, 3, 4]) if ns_mode == "none" else rng.choice([2, 2, 3, 4])
            keys = set()
            while len(keys) < ng:
                keys.add(tuple(rng.choice("abcd") for _ in range(nsf)))
            all_nan = rng.random() < 0.12 and ns_mode == "none"
            ov = [rng.choice(pools[j] + ["0", "1", "-1", "nan"]) for j in range(ncols)]
            if ns_mode in ("ov", "both") and rng.random() < 0.7:
                ov[ns_col] = "ns"
            for k in sorted(keys):
                vals = ["nan" if (all_nan and rng.random() < 0.9) else rng.choice(pools[j]) for j in range(ncols)]
                if ns_mode in ("by", "both") and rng.random() < 0.5:
                    vals[ns_col] = "ns"
                groups.append({"cf": list(c), "sf": list(k), "vals": vals, "ovals": ov, "rows": rng.choice([1, 1, 2])})
        return {"kind": "frame", "ncf": ncf, "nsf": nsf, "ncols": ncols, "groups": groups, "bare": False, "mode": "ns=" + ns_mode}

    def generate(self, rng, tier):
        gen = self.c01.generate(rng, tier)
        while True:
            u = rng.random()
            if u < 0.3:
                yield self._frame_case(rng)
            elif u < 0.62:
                yield self._table_case(rng)
            else:
                c = next(gen)
                c["kind"] = "data"
                yield c

    def exhaustive(self, tier):
        vals = ["0", "1/2", "1", "-1", "nan"]
        for ng in range(1, 5):
            for vs in itertools.product(vals, repeat=ng):
                for ov in ["0", "1/2", "1", "-1"]:
                    groups = [{"cf": [], "sf": ["g%d" % i], "val": v, "oval": ov, "rows": 1} for i, v in enumerate(vs)]
                    yield {"kind": "table", "ncf": 0, "nsf": 1, "groups": groups, "bare": True, "extra_ns": False, "mode": "exh"}
        for n1 in range(1, 3):
            for n2 in range(1, 3):
                for vs in itertools.product(vals, repeat=n1 + n2):
                    for o1, o2 in itertools.product(["0", "1", "-1"], repeat=2):
                        groups = [{"cf": ["k"], "sf": ["g%d" % i], "val": v, "oval": o1, "rows": 1} for i, v in enumerate(vs[:n1])]
                        groups += [{"cf": ["m"], "sf": ["g%d" % i], "val": v, "oval": o2, "rows": 1} for i, v in enumerate(vs[n1:])]
                        yield {"kind": "table", "ncf": 1, "nsf": 1, "groups": groups, "bare": False, "extra_ns": False, "mode": "exh"}

    def shrink(self, case):
        if case["kind"] == "data":
            for c in self.c01.shrink(case):
                c["kind"] = "data"
                yield c
            return
        g = case["groups"]
        if len(g) > 1:
            for i in range(len(g)):
                yield dict(case, groups=g[:i] + g[i + 1:])
        for i in range(len(g)):
            if g[i]["rows"] > 1:
                yield dict(case, groups=g[:i] + [dict(g[i], rows=1)] + g[i + 1:])
        if case["kind"] == "frame":
            if case["ncols"] > 1:
                for j in range(case["ncols"]):
                    yield dict(case, ncols=case["ncols"] - 1,
                               groups=[dict(x, vals=x["vals"][:j] + x["vals"][j + 1:], ovals=x["ovals"][:j] + x["ovals"][j + 1:])
                                       for x in g])
            for i in range(len(g)):
                for j, v in enumerate(g[i]["vals"]):
                    if v == "ns":
                        yield dict(case, groups=g[:i] + [dict(g[i], vals=g[i]["vals"][:j] + ["1"] + g[i]["vals"][j + 1:])] + g[i + 1:])
            return
        if case["extra_ns"]:
            yield dict(case, extra_ns=False)

    # ---------------------------------------------------------------- implementation
    def _names(self, case):
        if case["kind"] == "data":
            return self.c01._names(case)
        if case["kind"] == "frame":
            return [f"t{j}" for j in range(case["ncols"])]
        return ["metric"] if case["bare"] else (["t", "ns"] if case["extra_ns"] else ["t"])

    def _dims(self, case):
        if case["kind"] == "data":
            return len(case["cf"]), len(case["sf"])
        return case["ncf"], case["nsf"]

    def build(self, case):
        if case["kind"] == "data":
            return self.c01.build(case)
        if case["kind"] == "frame":
            return self.build_frame(case)
        from fairlearn.metrics import MetricFrame
        y, p, gid, sf, cf = [], [], [], [[] for _ in range(case["nsf"])], [[] for _ in range(case["ncf"])]
        fl = (lambda s: math.nan if s == "nan" else float(F(s)))
        for i, g in enumerate(case["groups"]):
            for _ in range(g["rows"]):
                y.append(fl(g["oval"]))
                p.append(fl(g["val"]))
                gid.append(i)
                for j in range(case["nsf"]):
                    sf[j].append(g["sf"][j])
                for j in range(case["ncf"]):
                    cf[j].append(g["cf"][j])
        kw = {}
        if case["ncf"]:
            kw["control_features"] = {f"c{j}": cf[j] for j in range(case["ncf"])}
        if case["bare"]:
            metrics, sp = tab_metric, {"gid": gid}
        else:
            metrics, sp = {"t": tab_metric}, {"t": {"gid": gid}}
            if case["extra_ns"]:
                metrics["ns"] = mc.conf_mat
        return MetricFrame(metrics=metrics, y_true=y, y_pred=p, sensitive_features={f"s{j}": sf[j] for j in range(case["nsf"])},
                           sample_params=sp, **kw)

    def build_frame(self, case):
        from fairlearn.metrics import MetricFrame
        fl = (lambda s: math.nan if s == "nan" else NS_CODE if s == "ns" else float(F(s)))
        ncols = case["ncols"]
        gid, sf, cf = [], [[] for _ in range(case["nsf"])], [[] for _ in range(case["ncf"])]
        gv, ov = [[] for _ in range(ncols)], [[] for _ in range(ncols)]
        for i, g in enumerate(case["groups"]):
            for _ in range(g["rows"]):
                gid.append(i)
                for j in range(ncols):
                    gv[j].append(fl(g["vals"][j]))
                    ov[j].append(fl(g["ovals"][j]))
                for j in range(case["nsf"]):
                    sf[j].append(g["sf"][j])
                for j in range(case["ncf"]):
                    cf[j].append(g["cf"][j])
        kw = {}
        if case["ncf"]:
            kw["control_features"] = {f"c{j}": cf[j] for j in range(case["ncf"])}
        n = len(gid)
        metrics = {f"t{j}": frame_metric for j in range(ncols)}
        sp = {f"t{j}": {"gid": gid, "gv": gv[j], "ov": ov[j]} for j in range(ncols)}
        return MetricFrame(metrics=metrics, y_true=[0] * n, y_pred=[0] * n,
                           sensitive_features={f"s{j}": sf[j] for j in range(case["nsf"])}, sample_params=sp, **kw)

    def impl(self, case):
        mf = self.build(case)
        ncf, nsf = self._dims(case)
        bare = case["bare"]
        names = self._names(case)
        out = {"metrics": {nm: {"agg": {}} for nm in names}, "types": {}}
        bg, ov = mf.by_group, mf.overall
        for nm in names:
            col = bg if bare else bg[nm]
            out["metrics"][nm]["by_group"] = mc.series_table(col, ncf + nsf)
            o = ov if bare else ov[nm]
            out["metrics"][nm]["overall"] = [[[], mc.tok(o)]] if ncf == 0 else mc.series_table(o, ncf)
        calls = {"min": lambda e: mf.group_min(errors=e), "max": lambda e: mf.group_max(errors=e)}
        for what in ("difference", "ratio"):
            for meth in ("between_groups", "to_overall"):
                calls[f"{what}/{meth}"] = (lambda e, what=what, meth=meth: getattr(mf, what)(method=meth, errors=e))
        for key, fn in calls.items():
            for e in ("raise", "coerce"):
                k = f"{key}/{e}"
                try:
                    r = fn(e)
                except ValueError:
                    for nm in names:
                        out["metrics"][nm]["agg"][k] = ["exc", "ValueError"]
                    out["types"][k] = "exc"
                    continue
                except Exception as ex:  # noqa: BLE001
                    for nm in names:
                        out["metrics"][nm]["agg"][k] = ["exc", type(ex).__name__]
                    out["types"][k] = "exc"
                    continue
                out["types"][k] = "DataFrame" if isinstance(r, pd.DataFrame) else "Series" if isinstance(r, pd.Series) else "scalar"
                for nm in names:
                    v = r if bare else r[nm]
                    out["metrics"][nm]["agg"][k] = [[[], mc.tok(v)]] if ncf == 0 else mc.series_table(v, ncf)
        # the same accessors with `errors=` and / or `method=` left out (defaults of the public methods)
        out["dtypes"] = {}
        for nm in names:
            out["metrics"][nm]["dflt"] = {}
        for k in DEF_KEYS:
            parts = k.split("/")
            fn = getattr(mf, {"min": "group_min", "max": "group_max"}.get(parts[0], parts[0]))
            kw = {}
            if len(parts) == 3 and parts[1] != "-":
                kw["method"] = parts[1]
            if parts[-1] != "-":
                kw["errors"] = parts[-1]
            try:
                r = fn(**kw)
            except Exception as ex:  # noqa: BLE001
                for nm in names:
                    out["metrics"][nm]["dflt"][k] = ["exc", type(ex).__name__]
                out["dtypes"][k] = "exc"
                continue
            out["dtypes"][k] = "DataFrame" if isinstance(r, pd.DataFrame) else "Series" if isinstance(r, pd.Series) else "scalar"
            for nm in names:
                v = r if bare else r[nm]
                out["metrics"][nm]["dflt"][k] = [[[], mc.tok(v)]] if ncf == 0 else mc.series_table(v, ncf)
        return out

    def lines(self, case, o):
        if "crash" in o:
            return []
        ncf, _ = self._dims(case)
        names = self._names(case)
        ns_cols = {nm: any(v == "ns" for _, v in o["metrics"][nm]["by_group"] + o["metrics"][nm]["overall"]) for nm in names}
        ls = []
        for nm in names:
            m = o["metrics"][nm]
            others = any(ns_cols[x] for x in names if x != nm)

            def keys(tab):
                return ";".join(proto.strs(k) for k, _ in tab) if tab else "none"

            def cells(tab):
                return ",".join(x_tok(x_of(v)) for _, v in tab) if tab else "none"
            ls.append(f"agg.eval {ncf} {proto.b(others)} {keys(m['by_group'])} {cells(m['by_group'])} "
                      f"{keys(m['overall'])} {cells(m['overall'])}")
        if case["kind"] == "frame":
            # the whole frame in one op (row-major); every column carries the same index
            ms = [o["metrics"][nm] for nm in names]

            def fkeys(tab):
                return ";".join(proto.strs(k) for k, _ in tab) if tab else "none"

            def frows(which):
                n = len(ms[0][which])
                return ";".join(",".join(x_tok(x_of(m[which][i][1])) for m in ms) for i in range(n)) if n else "none"
            ls.append(f"aggf.eval {ncf} {len(names)} {fkeys(ms[0]['by_group'])} {frows('by_group')} "
                      f"{fkeys(ms[0]['overall'])} {frows('overall')}")
        # the LIFTED result cache and accessors (Model/AggregateCache.lean over Generated/PopulateSrc.lean): same tables
        for ln in ls[:len(names)]:
            ls.append(f"aggc.eval {proto.b(case['bare'])} " + ln.split(" ", 1)[1])
        return ls

    # ---------------------------------------------------------------- judging
    def judge(self, case, o, mo):
        if "crash" in o:
            return [Problem("property", f"MetricFrame failed on a valid input: {o}", "C02.accepts")]
        probs = []
        ncf, nsf = self._dims(case)
        names = self._names(case)
        frame_ns = any(v == "ns" for nm in names for _, v in o["metrics"][nm]["by_group"] + o["metrics"][nm]["overall"])
        want_type = {(True, False): "scalar", (True, True): "Series", (False, False): "Series", (False, True): "DataFrame"}[(case["bare"], ncf > 0)]
        for k, t in o["types"].items():
            if t not in ("exc", want_type):
                probs.append(Problem("correspondence", f"{k}: result type {t}, documented {want_type}", "C02.extract_result"))
        for k, t in o.get("dtypes", {}).items():
            if t not in ("exc", want_type):
                probs.append(Problem("property", f"{k}: result type {t}, documented {want_type}", "C02.extract_result"))
        by_ns_frame = any(v == "ns" for nm in names for _, v in o["metrics"][nm]["by_group"])
        raise_must_raise = case["kind"] == "frame" and by_ns_frame and self.ns_determined(o, names, ncf)
        for j, nm in enumerate(names):
            m = o["metrics"][nm]
            # ---------------- documented defaults: a call that leaves `errors=` / `method=` out IS the call with the documented
            # default (group_min / group_max: errors='raise'; difference / ratio: method='between_groups', errors='coerce')
            for k in DEF_KEYS:
                a, b = m.get("dflt", {}).get(k), m["agg"].get(documented_default(k))
                if a is None or b is None:
                    continue
                if (a[0] == "exc") != (b[0] == "exc") or (a[0] != "exc" and a != b):
                    probs.append(Problem("property", f"{nm}.{k}: the call without the argument(s) gives {a}, the call with the "
                                         f"documented default ({documented_default(k)}) gives {b}", "C02.default_args"))
            # ---------------- errors='raise': a non-scalar by_group cell that has to be compared must raise, not be skipped
            if raise_must_raise:
                for key in RAISE_KEYS:
                    got = m["agg"][key]
                    if not (got and got[0] == "exc"):
                        probs.append(Problem("property", f"{nm}.{key} returned {got} although by_group holds non-scalar cells and "
                                             "errors='raise' (documented: invalid parsing raises)", "C02.raise_raises_on_nonscalar"))
            col_ns = any(v == "ns" for _, v in m["by_group"] + m["overall"])
            by = [(tuple(k), x_of(v)) for k, v in m["by_group"]]
            ov = {tuple(k): x_of(v) for k, v in m["overall"]}
            strata = sorted(set(k[:ncf] for k, _ in by))
            spec = None
            if case["kind"] == "data":
                spec = case["specs"][j]
            bad = set()    # aggregate keys of THIS metric whose implementation value already failed the oracle
            doc = {}
            for c in strata:
                vs = [("nan" if v == "ns" else v) for k, v in by if k[:ncf] == c]
                doc[c] = documented(vs, ov.get(c, "nan") if ov.get(c, "nan") != "ns" else "nan")
                doc[c]["_vs"] = vs
            # ---------------- errors='coerce' on a frame with non-scalar cells: documented as "set to NaN", so the
            # group_min / group_max / between_groups aggregates are the documented functions of the remaining cells
            if frame_ns:
                for key in NS_COMPARED:
                    got = m["agg"][key]
                    base = key.rsplit("/", 1)[0]
                    if got and got[0] == "exc":
                        probs.append(Problem("property", f"{nm}.{key} raised {got[1]} although errors='coerce' (non-scalar cells "
                                             "are documented to be set to NaN)", "C02.coerce_skips_nonscalar"))
                        continue
                    gd = {tuple(k): v for k, v in got}
                    if sorted(gd.keys()) != strata:
                        probs.append(Problem("property", f"{nm}.{key}: strata {sorted(gd.keys())} expected {strata}", "C02.strata"))
                        continue
                    for c in strata:
                        if not mc.same(gd[c], doc[c][base], TOL):
                            probs.append(Problem("property", f"{nm}.{key}[{list(c)}] = {gd[c]}, documented value {x_tok(doc[c][base])} with "
                                                 f"non-scalar cells as NaN (groups {[x_tok(v) for v in doc[c]['_vs']]})",
                                                 "C02.coerce_skips_nonscalar"))
            # ---------------- the implementation against the documented functions (property)
            if not frame_ns:
                for key in AGG_KEYS:
                    got = m["agg"][key]
                    base = key.rsplit("/", 1)[0]
                    if got and got[0] == "exc":
                        probs.append(Problem("property", f"{nm}.{key} raised {got[1]} on an all-scalar frame", "C02.raise_eq_coerce"))
                        bad.add(key)
                        continue
                    gd = {tuple(k): v for k, v in got}
                    if sorted(gd.keys()) != strata:
                        probs.append(Problem("property", f"{nm}.{key}: strata {sorted(gd.keys())} expected {strata}", "C02.strata"))
                        bad.add(key)
                        continue
                    for c in strata:
                        want = doc[c][base]
                        g = gd[c]
                        if not mc.same(g, want, TOL):
                            p = Problem("property", f"{nm}.{key}[{list(c)}] = {g}, documented value {x_tok(want)} "
                                        f"(groups {[x_tok(v) for v in doc[c]['_vs']]}, overall {x_tok(ov.get(c, 'nan'))})",
                                        "C02." + base.replace("/", "_") + "_eq")
                            p.info = {"base": base, "got": g, "kept": doc[c]["_r_ov_kept"], "rs": doc[c]["_rs"]}
                            probs.append(p)
                            bad.add(key)
                # raise == coerce
                for base in sorted(set(k.rsplit("/", 1)[0] for k in AGG_KEYS)):
                    a, b = m["agg"][base + "/raise"], m["agg"][base + "/coerce"]
                    if a and b and a[0] != "exc" and b[0] != "exc":
                        if len(a) != len(b) or any(ka != kb or not (va == vb or (not isinstance(va, str) and not isinstance(vb, str) and va == vb))
                                                   for (ka, va), (kb, vb) in zip(a, b)):
                            probs.append(Problem("property", f"{nm}.{base}: errors='raise' gives {a} but 'coerce' gives {b}", "C02.raise_eq_coerce"))
                # the "hence" clauses, on the implementation's own numbers
                def val(key, c):
                    got = m["agg"][key]
                    if not got or got[0] == "exc":
                        return None
                    for k, v in got:
                        if tuple(k) == c:
                            return v
                    return None
                for c in strata:
                    vs = [v for v in doc[c]["_vs"] if not isnan(v)]
                    o_c = ov.get(c, "nan")
                    for meth in ("between_groups", "to_overall"):
                        d = val(f"difference/{meth}/coerce", c)
                        if d is not None and (d == "-inf" or (not isinstance(d, str) and d < 0)):
                            probs.append(Problem("property", f"{nm}.difference({meth})[{list(c)}] = {d} < 0", "C02.difference_nonneg"))
                        r = val(f"ratio/{meth}/coerce", c)
                        if r is not None and r != "nan":
                            rf = x_float(r) if isinstance(r, str) else r
                            if rf > 1 + TOL:
                                p = Problem("property", f"{nm}.ratio({meth})[{list(c)}] = {r} > 1 (groups {[x_tok(v) for v in vs]})", "C02.ratio_le_one")
                                p.info = {"meth": meth, "all_negative": bool(vs) and all(x_lt(v, F(0)) for v in vs)}
                                probs.append(p)
                            nonneg = all(not x_lt(v, F(0)) for v in vs) and (meth == "between_groups" or (not isnan(o_c) and not x_lt(o_c, F(0))))
                            if nonneg and rf < -TOL:
                                probs.append(Problem("property", f"{nm}.ratio({meth})[{list(c)}] = {r} < 0 on a non-negative table", "C02.ratio_nonneg"))
                    db, do = val("difference/between_groups/coerce", c), val("difference/to_overall/coerce", c)
                    if db is not None and do is not None and not isinstance(db, str) and not isinstance(do, str):
                        if db > 2 * do + TOL * max(1.0, abs(do)):
                            probs.append(Problem("property", f"{nm}[{list(c)}]: between_groups difference {db} > 2 x to_overall difference {do}", "C02.between_le_two_overall"))
                        if spec is not None and spec["tag"] in WMEAN_TAGS and do > db + TOL * max(1.0, abs(db)):
                            probs.append(Problem("property", f"{nm}[{list(c)}] ({spec['tag']}): to_overall difference {do} > between_groups difference {db}", "C02.overall_le_between_of_weighted_mean"))
                    # non-negative weighted-mean metrics: ratio(to_overall) >= ratio(between_groups)  (theorem
                    # C02.ratio_overall_ge_between_of_weighted_mean)
                    rb, ro = val("ratio/between_groups/coerce", c), val("ratio/to_overall/coerce", c)
                    if (spec is not None and spec["tag"] in WMEAN_TAGS and vs and all(not x_lt(v, F(0)) for v in vs)
                            and rb is not None and ro is not None and not isinstance(rb, str) and not isinstance(ro, str)):
                        if ro < rb - TOL:
                            probs.append(Problem("property", f"{nm}[{list(c)}] ({spec['tag']}): to_overall ratio {ro} < between_groups ratio {rb} "
                                                 f"on non-negative groups {[x_tok(v) for v in vs]}", "C02.ratio_overall_ge_between_of_weighted_mean"))
            # ---------------- the Lean model (single-metric op; multi-metric frames are judged as a whole below)
            if mo is not None and case["kind"] != "frame":
                res = mo[j].split(" ")
                if len(res) != 12:
                    probs.append(Problem("harness", f"driver output {mo[j][:200]!r}"))
                    continue
                for key, r in zip(AGG_KEYS, res):
                    base = key.rsplit("/", 1)[0]
                    got = m["agg"][key]
                    if frame_ns and key not in NS_COMPARED:
                        continue     # object-dtype reductions of pandas: outside the property, not compared
                    if r == "err":
                        if not frame_ns:
                            probs.append(Problem("harness", f"{nm}.{key}: model raises on an all-scalar frame"))
                        elif not (got and got[0] == "exc"):
                            probs.append(Problem("correspondence", f"{nm}.{key}: model raises (non-scalar cells), impl returned {got}", "C02.model_errors"))
                        continue
                    kt, ct = r.split("|")
                    md = dict(zip([tuple(k) for k in mc.parse_keys(kt)], mc.parse_cells(ct)))
                    if not frame_ns:
                        # model vs documented formulas: identical except for the known F8b shape.  The model is
                        # written over definitions LIFTED from the source, so it legitimately follows a changed
                        # source; a disagreement is a bug of this machinery only if the implementation itself
                        # still agrees with the documented value (otherwise it is the property that fails).
                        gd0 = {tuple(k): v for k, v in got} if got and got[0] != "exc" else {}
                        for c in strata:
                            want = doc[c]["_r_ov_kept"] if base == "ratio/to_overall" else doc[c][base]
                            if md.get(c) != want and c in gd0 and mc.same(gd0[c], want, TOL):
                                probs.append(Problem("harness", f"{nm}.{key}[{list(c)}]: model {md.get(c)} vs oracle {want}"))
                    # the comparison is skipped only for a key whose implementation value failed the ORACLE itself (then the
                    # property problem is the report); a failure of another key / metric / a known finding does not switch it off
                    skip = (key in bad) or (frame_ns and any(p.kind == "property" for p in probs))
                    if got and got[0] == "exc":
                        if not skip:
                            probs.append(Problem("correspondence", f"{nm}.{key}: impl raised {got[1]}, model returned {r}", "C02.model_errors"))
                        continue
                    if not skip:
                        gd = {tuple(k): v for k, v in got}
                        if list(gd.keys()) != list(md.keys()) or any(not mc.same(gd[c], md[c], TOL) for c in gd):
                            probs.append(Problem("correspondence", f"{nm}.{key}: impl {got} vs model {r}", "C02.model"))
        if mo is not None and case["kind"] == "frame":
            probs += self.judge_frame(case, o, mo, names, ncf, frame_ns)
        if mo is not None:
            probs += self.judge_cache(case, o, mo, names, ncf, frame_ns, any(p.kind == "property" for p in probs))
        return probs

    def judge_cache(self, case, o, mo, names, ncf, frame_ns, prop_failed):
        """driver op `aggc.eval` = the LIFTED cache / accessors / `_extract_result` (Generated/PopulateSrc.lean, FrameSrc.lean):
        (i) its 12 explicit calls = the hand-written op `agg.eval` (theorem C02.src_cache_explicit_calls), (ii) the extract
        mode = the documented result type = the implementation's, (iii) explicit and default calls vs the implementation"""
        probs = []
        base = len(names) + (1 if case["kind"] == "frame" else 0)
        changed = populate_changed()
        doc_mode = "whole" if not case["bare"] else ("column0" if ncf > 0 else "entry0")
        type_of = {"entry0": "scalar", "column0": "Series", "whole": "Series" if ncf == 0 else "DataFrame"}

        def tie(msg, rel):
            # model-vs-model / model-vs-documentation: a bug of this machinery on the pinned text, a broken tie after an edit
            return Problem("correspondence", msg, rel) if changed else Problem("harness", msg)
        for j, nm in enumerate(names):
            if base + j >= len(mo):
                return probs + [Problem("harness", "driver output: aggc.eval line missing")]
            toks = mo[base + j].split(" ")
            if len(toks) != 24:
                probs.append(Problem("harness", f"driver output {mo[base + j][:200]!r}"))
                continue
            hand = mo[j].split(" ")
            m = o["metrics"][nm]
            for i, (key, tk) in enumerate(zip(AGG_KEYS + DEF_KEYS, toks)):
                explicit = i < 12
                rule_key = key if explicit else documented_default(key)
                got = m["agg"][key] if explicit else m.get("dflt", {}).get(key)
                typ = (o["types"] if explicit else o.get("dtypes", {})).get(key)
                if got is None:
                    continue
                if tk in ("keyerror", "invalid"):
                    probs.append(tie(f"{nm}.{key}: lifted accessor model answers {tk}", "C02.src_populate_eq_model"))
                    continue
                mode, r = tk.split(":", 1)
                if mode != doc_mode:
                    probs.append(tie(f"{nm}.{key}: lifted _extract_result mode {mode}, documented {doc_mode}", "C02.src_extract_documented"))
                if typ not in (None, "exc") and typ != type_of[mode]:
                    probs.append(Problem("correspondence", f"{key}: impl result type {typ}, lifted _extract_result mode {mode}",
                                         "C02.extract_result"))
                if explicit and len(hand) == 12 and r != hand[i]:
                    probs.append(tie(f"{nm}.{key}: lifted cache {r} vs hand-written model {hand[i]}", "C02.src_populate_eq_model"))
                if not explicit and len(hand) == 12 and r != hand[AGG_KEYS.index(rule_key)]:
                    probs.append(tie(f"{nm}.{key}: lifted default call {r} vs hand-written model of {rule_key} "
                                     f"{hand[AGG_KEYS.index(rule_key)]}", "C02.src_cache_default_calls"))
                # (iii) the implementation
                if frame_ns and rule_key not in NS_COMPARED:
                    continue          # object-dtype reductions of pandas (see judge)
                impl_exc = bool(got) and got[0] == "exc"
                if r == "err":
                    if not impl_exc and not prop_failed:
                        probs.append(Problem("correspondence", f"{nm}.{key}: lifted cache model raises, impl returned {got}", "C02.cache_model"))
                    continue
                if impl_exc:
                    if not prop_failed:
                        probs.append(Problem("correspondence", f"{nm}.{key}: impl raised {got[1]}, lifted cache model returned {r}", "C02.cache_model"))
                    continue
                if prop_failed:
                    continue
                kt, ct = r.split("|")
                md = dict(zip([tuple(k) for k in mc.parse_keys(kt)], mc.parse_cells(ct)))
                gd = {tuple(k): v for k, v in got}
                if list(gd.keys()) != list(md.keys()) or any(not mc.same(gd[c], md[c], TOL) for c in gd):
                    probs.append(Problem("correspondence", f"{nm}.{key}: impl {got} vs lifted cache model {r}", "C02.cache_model"))
        return probs

    def judge_frame(self, case, o, mo, names, ncf, frame_ns):
        """the frame op `aggf.eval` (whole multi-metric frame, exact error behaviour) against the implementation,
        and against the single-metric op of every column wherever the column theorems of C02 apply"""
        probs = []
        ncols = len(names)
        fres = mo[ncols].split(" ")
        if len(fres) != 12:
            return [Problem("harness", f"driver output {mo[ncols][:200]!r}")]
        by_ns = any(v == "ns" for nm in names for _, v in o["metrics"][nm]["by_group"])
        ov_ns = any(v == "ns" for nm in names for _, v in o["metrics"][nm]["overall"])
        determined = self.ns_determined(o, names, ncf)
        for key, r in zip(AGG_KEYS, fres):
            base, e = key.rsplit("/", 1)
            gots = [o["metrics"][nm]["agg"][key] for nm in names]
            impl_exc = bool(gots[0]) and gots[0][0] == "exc"
            if frame_ns and not determined and key not in NS_COMPARED:
                continue    # a lone object cell: pandas returns the cell itself instead of comparing (see ns_determined)
            # (i) model consistency: column j of the frame result = single-metric result (theorems frame_*_col)
            if base in ("min", "max", "difference/between_groups", "ratio/between_groups"):
                applies = (e == "coerce") or not ov_ns
            elif base == "difference/to_overall":
                applies = (not by_ns) or ov_ns
            else:
                applies = True
            cols = None
            if r != "err":
                kt, rt = r.split("|")
                fkeys = [tuple(k) for k in mc.parse_keys(kt)]
                rows = [] if rt == "none" else [[mc.model_tok(c) for c in row.split(",")] for row in rt.split(";")]
                cols = [dict(zip(fkeys, [row[j] for row in rows])) for j in range(ncols)]
            if applies:
                for j in range(ncols):
                    rj = mo[j].split(" ")[AGG_KEYS.index(key)]
                    if (rj == "err") != (r == "err"):
                        probs.append(Problem("harness", f"{key}: frame model {r[:60]} vs column model {rj[:60]} (column {j})"))
                    elif r != "err":
                        kt, ct = rj.split("|")
                        if dict(zip([tuple(k) for k in mc.parse_keys(kt)], mc.parse_cells(ct))) != cols[j]:
                            probs.append(Problem("harness", f"{key}: frame model column {j} {cols[j]} vs column model {rj[:80]}"))
            # (ii) the implementation
            if r == "err":
                if not impl_exc:
                    if not frame_ns:
                        probs.append(Problem("harness", f"{key}: frame model raises on an all-scalar frame"))
                    else:
                        probs.append(Problem("correspondence", f"{key}: frame model raises (non-scalar cells: by_group={by_ns}, "
                                             f"overall={ov_ns}), impl returned {gots}", "C02.frame_errors"))
                continue
            if impl_exc:
                probs.append(Problem("correspondence", f"{key}: impl raised {gots[0][1]} (non-scalar cells: by_group={by_ns}, "
                                     f"overall={ov_ns}), frame model returned {r[:120]}", "C02.frame_errors"))
                continue
            for j, nm in enumerate(names):
                gd = {tuple(k): v for k, v in gots[j]}
                if list(gd.keys()) != list(cols[j].keys()) or any(not mc.same(gd[c], cols[j][c], TOL) for c in gd):
                    probs.append(Problem("correspondence", f"{nm}.{key}: impl {gots[j]} vs column {j} of the frame model {cols[j]}",
                                         "C02.frame_columnwise"))
        return probs

    @staticmethod
    def ns_determined(o, names, ncf):
        """pandas raises on an object column only when it has to COMPARE a non-scalar cell with another cell; the
        min / max of a single object is that object.  The error behaviour of a frame with non-scalar cells is
        therefore only compared with the model when every stratum has >= 2 by_group rows and every (stratum, column)
        holding a non-scalar by_group cell holds a second non-NaN cell."""
        for nm in names:
            per = {}
            for k, v in o["metrics"][nm]["by_group"]:
                per.setdefault(tuple(k[:ncf]), []).append(v)
            for vs in per.values():
                if len(vs) < 2:
                    return False
                if any(v == "ns" for v in vs) and sum(1 for v in vs if v != "nan") < 2:
                    return False
        return True

    def known(self, case, problem, entries):
        """F8: between_groups ratio > 1 exactly when every (non-NaN) group value of the stratum is negative.
        F8b: to_overall ratio differs from min(r,1/r) exactly because a negative quotient r in (-1,0) is kept as r."""
        info = getattr(problem, "info", None)
        if info is None:
            return None
        fid = None
        if problem.relation == "C02.ratio_le_one" and info.get("meth") == "between_groups" and info.get("all_negative"):
            fid = "F8"
        if problem.relation == "C02.ratio_to_overall_eq" and info.get("base") == "ratio/to_overall":
            if any((not isinstance(r, str)) and -1 < r < 0 for r in info["rs"]) and mc.same(info["got"], info["kept"], TOL):
                fid = "F8b"
        for e in entries:
            if e["id"] == fid:
                return e
        return None

    def signature(self, case, o):
        ncf, nsf = self._dims(case)
        tags = [f"kind={case['kind']}", f"ncf={ncf}", f"nsf={nsf}", "bare" if case["bare"] else "dict"]
        key = None
        ngroups = 0
        if "crash" in o:
            tags.append("crash")
            return str(case), True, tags
        for nm in self._names(case):
            m = o["metrics"][nm]
            vs = [v for _, v in m["by_group"]]
            ngroups = max(ngroups, len(vs))
            live = [v for v in vs if not isinstance(v, str)]
            if any(v == "nan" for v in vs):
                tags.append("nan_cell")
            if any(v == "ns" for v in vs):
                tags.append("nonscalar")
            if any(v == "ns" for _, v in m["overall"]):
                tags.append("nonscalar_overall")
            if live and all(v < 0 for v in live):
                tags.append("all_negative")
            if live and any(v < 0 for v in live) and any(v >= 0 for v in live):
                tags.append("mixed_sign")
            if live and len(set(live)) == 1 and len(live) > 1:
                tags.append("all_equal")
            if live and max(live) == 0:
                tags.append("zero_max")
            if any(v == 0 for _, v in m["overall"]):
                tags.append("zero_overall")
            if any(isinstance(v, float) and v < 0 for _, v in m["overall"]):
                tags.append("negative_overall")
            for k2, a in m["agg"].items():
                if a and a[0] == "exc":
                    tags.append("raises:" + k2.split("/")[0])
                elif k2.endswith("coerce"):
                    for _, v in a:
                        if v in ("inf", "-inf"):
                            tags.append("inf_result")
                        if v == "nan" and k2.startswith("ratio"):
                            tags.append("nan_ratio")
            key = (key, tuple(map(str, m["by_group"])), tuple(map(str, m["overall"])))
        if case["kind"] == "frame":
            tags.append(f"ncols={case['ncols']}")
            if "crash" not in o and any(v == "ns" for nm in self._names(case) for w in ("by_group", "overall")
                                        for _, v in o["metrics"][nm][w]):
                tags.append("frame:ns_errors_compared" if self.ns_determined(o, self._names(case), ncf) else "frame:ns_lone_cell")
            tags.append("frame:" + case["mode"])
            if any(all(v == "nan" for v in g["vals"]) for g in case["groups"]):
                tags.append("frame:all_nan_row")
            by_s = {}
            for g in case["groups"]:
                by_s.setdefault(tuple(g["cf"]), []).append(g)
            if any(all(v == "nan" for g in gs for v in g["vals"]) for gs in by_s.values()):
                tags.append("frame:all_nan_stratum")
        elif case["kind"] == "table":
            tags.append("mode=" + case["mode"])
        else:
            for s in case["specs"]:
                tags.append("metric=" + s["tag"])
        tags.append(f"groups={'1' if ngroups == 1 else '2-4' if ngroups <= 4 else '5+'}")
        return key, ngroups >= 2, sorted(set(tags))
