"""MANIFEST.setup_cmd: regenerate translator output and library roots, then build everything offline."""
import os
import sys

from . import leanrun, translate


def main():
    repo = os.environ.get("VERIF_REPO", "/repo")
    try:
        print("translator:", translate.run(repo))
    except translate.Untranslatable as e:
        print("translator refused (left to the checks to report):", e)
    ok, log, t = leanrun.build(["FairModel", "driver"])
    print(log[-3000:])
    print(f"build ok={ok} in {t:.0f}s")
    sys.exit(0 if ok else 1)


if __name__ == "__main__":
    main()
