"""Replay on REAL fairlearn of the Lean witness C08.precision_slack_needed:
best_gap_ (= 0) understates the true duality gap (5e-9) of (weights_, recorded multiplier) over a 2-element class,
because best_h keeps the cached classifier when the exact oracle's answer improves by less than _PRECISION = 1e-8."""
import sys, logging
sys.path.insert(0, "/repo")
import numpy as np, pandas as pd
from sklearn.base import BaseEstimator
from fairlearn.reductions import ExponentiatedGradient, DemographicParity

y  = np.array([0, 0, 1, 1, 1, 0, 0, 0])
sf = np.array(list("aabbbbbb"))
X  = pd.DataFrame({"row": np.arange(8)})
D  = 4e-8
hA = np.array([1, 0, 1, 1, 1, 0, 0, 0], dtype=float)
hB = hA.copy(); hB[0] = 1 - D            # error(hB) = error(hA) - D/8 = error(hA) - 5e-9
CLASS = [hA, hB]
answers = []

class Exact(BaseEstimator):
    """exact cost-sensitive learner over CLASS: argmin sum_i w_i |y_i - h_i| (first minimiser)"""
    def fit(self, X, y, sample_weight=None):
        w = np.ones(len(y)) if sample_weight is None else np.asarray(sample_weight, dtype=float)
        costs = [float(np.sum(w * np.abs(np.asarray(y, dtype=float) - h[np.asarray(X["row"])]))) for h in CLASS]
        self.k_ = int(np.argmin(costs)); answers.append(self.k_); return self
    def predict(self, X):
        return CLASS[self.k_][np.asarray(X["row"])]

eg = ExponentiatedGradient(Exact(), DemographicParity(ratio_bound=0.5, ratio_bound_slack=0.1), eps=0.5, max_iter=8,
                           nu=1e-3, eta0=0.1, run_linprog_step=True)
eg.fit(X, y, sensitive_features=sf)
b = eg.best_iter_
lam = eg.lambda_vecs_LP_[b] if b in eg.lambda_vecs_LP_.columns else None
print("oracle answers (0 = hA, 1 = hB):", answers)
print("predictors_:", len(eg.predictors_), "weights_:", list(eg.weights_), "best_iter_:", b, "last_iter_:", eg.last_iter_)
print("best_gap_ =", repr(eg.best_gap_))
print("recorded LP multiplier of the returned iteration:", None if lam is None else list(lam))
errA, errB = np.mean(np.abs(y - hA)), np.mean(np.abs(y - hB))
print("error(hA) =", repr(errA), " error(hB) =", repr(errB))
if lam is not None and float(np.abs(lam).sum()) == 0.0 and list(eg.weights_) == [1.0]:
    print("TRUE duality gap of (weights_ = hA, lambda = 0) over the class {hA, hB} = error(hA) - error(hB) =", repr(errA - errB),
          "> best_gap_ =", repr(eg.best_gap_))
